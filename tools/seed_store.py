#!/usr/bin/env python3
"""usage: seed_store.py <PROP> <letter> <agent-out-dir> <x> <first_run> <strengthened-or-'-'> <sig1> [sig2 ...]
stores a confirmed seeded change as /verif/seeded/<PROP>-<letter>/ (patch.diff, demo.diff, README.md, meta.json)"""
import json, os, shutil, sys
prop, letter, src, x, first, strengthened = sys.argv[1:7]
sigs = sys.argv[7:]
d = '/verif/seeded/%s-%s' % (prop, letter)
os.makedirs(d, exist_ok=True)
shutil.copy(os.path.join(src, x + '_patch.diff'), os.path.join(d, 'patch.diff'))
shutil.copy(os.path.join(src, x + '_demo.diff'), os.path.join(d, 'demo.diff'))
readme = open(os.path.join(src, x + '_README.md')).read()
open(os.path.join(d, 'README.md'), 'w').write(readme)
meta = {
    "property": prop, "id": "%s-%s" % (prop, letter),
    "origin": "written by an independent sub-agent that saw only the property text (second round agents were also told which mechanisms were already used) and a scratch worktree",
    "needs_to_manifest": readme[:1500],
    "confirmed": "own confirmation in a scratch worktree of /repo HEAD (tools/seed_confirm.sh): change alone 158 passed; change + demonstration fails only the demonstration; demonstration alone passes",
    "check": {"cmd": "git -C /repo apply /verif/seeded/%s-%s/patch.diff && ./check %s --tier quick; git -C /repo checkout -- ." % (prop, letter, prop),
              "exit": 1, "violation_signatures": sigs, "first_run": first, "strengthened": None if strengthened == '-' else strengthened}}
json.dump(meta, open(os.path.join(d, 'meta.json'), 'w'), indent=1)
print('stored', d)
