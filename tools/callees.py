"""list the std/external callees (normalised) reachable from entry functions"""
import sys
sys.path.insert(0, '/verif')
from mirsym.mir import MirModule
from mirsym.srcinfo import SrcInfo
from mirsym.interp import FuncIndex, parse_callee, Unsupported
import collections

def main(mirpath, entries):
    mod = MirModule(mirpath)
    src = SrcInfo('/repo')
    idx = FuncIndex(mod, src)
    todo = []
    for e in entries:
        hits = [f for n, f in mod.funcs.items() if n.endswith(e)]
        assert hits, e
        todo += hits
    seen = set()
    ext = collections.Counter()
    exa = {}
    while todo:
        f = todo.pop()
        if f.name in seen: continue
        seen.add(f.name)
        mod.parse_body(f)
        for bb, blk in f.blocks.items():
            t = blk.term
            # closures constructed
            for st in blk.stmts:
                if st[0]=='assign' and st[2][0]=='agg' and st[2][2] and st[2][2].startswith('{'):
                    g = idx.closures.get(st[2][2])
                    if g: todo.append(g)
            if t and t[0]=='call' and t[2][0]=='path':
                ci = parse_callee(t[2][1])
                try:
                    g = idx.resolve(ci)
                except Unsupported as e:
                    g=None; ext['AMBIG '+ci.norm]+=1
                if g is not None:
                    todo.append(g)
                else:
                    ext[ci.norm]+=1
                    exa.setdefault(ci.norm, (ci.raw, f.name))
    print('crate functions reached:', len(seen))
    for n in sorted(seen): print('   ', n[-110:])
    print('external callees:', len(ext))
    for k,v in sorted(ext.items()):
        print('%4d %-60s %s' % (v,k, exa.get(k,('',''))[0][:90]))
if __name__=='__main__':
    main(sys.argv[1], sys.argv[2:])
