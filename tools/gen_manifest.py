#!/usr/bin/env python3
"""Regenerates /verif/MANIFEST.json from the table below (keeps it valid and current)."""
import json, subprocess

HOOK_COMMITS = subprocess.run(['git', '-C', '/repo', 'log', '--format=%h %s'], capture_output=True, text=True).stdout.splitlines()
HOOK_COMMITS = [l.split()[0] for l in HOOK_COMMITS if 'verif hook' in l]

TECH = ("bounded symbolic execution of the function's MIR (regenerated from /repo on every run) with z3 deciding "
        "path-condition AND NOT property for every path; counterexamples replayed on the natively compiled real code")

CLAIMS = {
 'C01': dict(
   level='model_checking',
   text="Every path of RoomAuthorisations::validate_entity_mutation (and Room::can / Authorisation::* below it) is executed symbolically from the "
        "current MIR over rooms built through the real add_* functions from symbolic event lists (64-bit dates, boolean flags, symbolic keys/entities/ids); "
        "for each accepted path z3 shows that the independent oracle grants the caller the needed right in the destination and the departing room, "
        "that no authorisation entity passes, and that every nested mutation was validated and accepted (inductive step over the mutation tree, so any depth). "
        "Bounded in list lengths and group counts as stated in the evidence; sat models are replayed on the real build before being reported.",
   note="Trusted: rustc's MIR as the semantics of the source; the std container models (HashMap as association list, Vec, Option/Result, iterators) and the "
        "environment stubs listed in the evidence (now(), bincode size, base64, ideal signing); each run validates the encoder on ~2% of the explored paths "
        "by running their concrete instances through the real code. Outside the claim: reading old_node from SQLite, the write itself, the parsers.",
   design='DESIGN.md §3 C01'),
 'C02': dict(
   level='model_checking',
   text="validate_node, validate_edge_deletions and validate_node_deletions are executed symbolically from the current MIR on the same symbolic room "
        "states as C01 with a symbolic incoming row (node present/absent, entity name present/absent, local version none/same room/other room, "
        "previous author none/any) and symbolic deletion batches; z3 shows that every accepted row's stated author is granted the needed right at the "
        "row's own date (all-rows right when it replaces or deletes another author's row, in both rooms on a room change, size within the limit), that "
        "returned deletion records are unchanged input records, and that a record's verdict does not depend on the rest of the batch or on map order. "
        "Received references: the whole ingestion pipeline - GraphDatabase::add_edges (an async fn: entity-name lookup, the closure it hands to the reader pool run on a "
        "modelled connection whose existence tests on _node are answered by uninterpreted row_is_stored / room_of_stored_row / entity_of_stored_row), the AddEdges message, "
        "and the AddEdges arm of AuthorisationService::process_message up to the write message - is executed on 1-2 symbolic references; z3 shows a reference reaches "
        "the writer only if its author holds the own-rows right in the synchronised room at the reference's date AND its source row is stored in that room, and that a "
        "single reference satisfying both is not refused. The same for received deletion records of references: GraphDatabase::delete_edges, the closure run on the reader "
        "connection (EdgeDeletionEntry::with_source_authors: the stored reference and its author, the room of the source row), the DeleteEdges arm and validate_edge_deletions; "
        "a record reaches the writer only with the right its kind needs (all-rows for another author's reference) in the room it is stamped with, and never when its source "
        "row is stored in another room. Counterexamples and samples are replayed through the public API of a real database (add_edges / delete_edges, then a query).",
   note="Kernel only: the model filter of GraphDatabase::add_nodes and the signature thread pool are outside this claim (DESIGN.md §3 C02). The reader SQL understood "
        "by the model is SELECT <columns> FROM _node|_edge WHERE col=? AND ... (answered from uninterpreted facts about what is stored); anything else is reported as not modelled. Same trusted base as C01.",
   design='DESIGN.md §3 C02'),
 'C12': dict(
   level='model_checking',
   text="A relational query over the two real implementations: on one symbolic room state the MIR of validate_entity_mutation (local) and of validate_node "
        "(remote) is executed on the same written row (author = caller, date, entity, new room, previous room/author, size), and validate_deletion against "
        "validate_node_deletions / validate_edge_deletions on the tombstone the local path built; z3 shows local Ok <=> remote accept on every path. "
        "A sat answer is a write one side accepts and the other refuses, replayed on both real functions.",
   note="Restricted to rows in a room and non-system entities; model validation and the inline edge-insertion check are outside the kernel; the local "
        "deletion check date is tied to the tombstone's deletion date (the property's same-date clause). Same trusted base as C01.",
   design='DESIGN.md §3 C12'),
 'C09': dict(
   level='model_checking',
   text="Marking kernel: for every kind of write (InsertEntity / MutationQuery / NodeToInsert / DeletionQuery / RoomMutationWriteQuery::update_daily_logs and the "
        "marking statements of NodeDeletionEntry / EdgeDeletionEntry::delete_all) the MIR is executed on symbolic rows (rooms, entities, 64-bit dates, old versions) "
        "into a real DailyMutations value, and z3 shows that every (room, entity, day) cell whose stored content the write changes is among the marked cells; "
        "the UTC-day function is uninterpreted during exploration and replaced by its exact bit-vector definition before a counterexample is accepted; "
        "counterexamples and ~2% of explored paths are replayed on the real code (delete_all against an in-memory SQLite).",
   note="Kernel only: recomputation and the history hash chain are SQL (DailyLogsUpdate::compute) and outside the claim; which rows a cell contains is read from that SQL text. "
        "Dates are assumed inside chrono's range (panics outside are C14). rusqlite calls are may-fail no-ops.",
   design='DESIGN.md §3 C09'),
 'C15': dict(
   level='model_checking',
   text="DataModel::update_with / Entity::update / add_field / insert are executed from the current MIR on models built the way the parser builds them, "
        "for a family of edits (added / removed / retyped / reordered fields and entities, added namespaces, nullability and deprecation flips with the flags "
        "symbolic in the old and the new version) and with the iteration order of every HashMap an explored nondeterministic choice. Shown on every path: a refused "
        "version leaves the model structurally equal to its snapshot (z3 query over the symbolic flags), an accepted one keeps every existing name / type / storage id, "
        "ids are unique, equal for every iteration order, and re-applying the accepted version is accepted and changes nothing. Counterexamples are replayed through "
        "DataModel::update on generated model text (60 fresh instances, since the real hash order is random).",
   note="Outside the claim: the pest parser, persistence and index maintenance (SQL). Edits are the listed family on models of <= 2 namespaces x 2 entities x 3 fields.",
   design='DESIGN.md §3 C15'),
 'C14': dict(
   level='model_checking',
   text="Panic-freedom of the pure decoders and validators. Kani (CBMC, bit-precise, unwinding assertions on) proves import_verifying_key panic-free on every byte "
        "string of length 0..40, Ed2519VerifyingKey::verify on every signature length 0..70, uid_from on every vector of length 0..40, with reachability covers; "
        "mirsym executes the daily-log marking of synchronised rows / tombstones with unconstrained 64-bit peer dates (chrono modelled on its measured range, panic "
        "outside), Variables::validate_params for every VariableType x ParamValue x nullable, and verify() of every signed kind; a failing MIR assert, unwrap on None/Err, "
        "unreachable or panic! is an explicit event and any feasible one is a violation, replayed natively (Kani values through concrete playback).",
   note="Kernel only (level_note): the pest parsers and the unwraps behind them, SQL validity of generated statements, wire framing in endpoint.rs, thread liveness and the "
        "JSON-null unwrap in get_mutate_query (needs a rusqlite::Connection) are outside. Kani stubs: dalek from_bytes/verify arbitrary Ok/Err, alloc::fmt::format empty.",
   technique="Kani/CBMC bounded model checking of the compiled code (byte decoders) + bounded symbolic execution of MIR with z3 (structural code); counterexamples replayed natively",
   design='DESIGN.md §3 C14'),
 'C20': dict(
   level='model_checking',
   text="(a) Grant step: RoomLockService::acquire_lock (an async fn without suspension point; its coroutine body is executed from MIR and must return Ready) from "
        "an arbitrary state satisfying the representation invariant: 1-3 queued peers with 1-3 symbolic rooms each, 0-2 symbolic locked rooms, symbolic free slots >= 1, "
        "every send succeeding or failing symbolically. z3 shows: no panic (usize underflow), at most one grant, a granted room was free and becomes locked, "
        "locked + free slots is preserved, a room leaves a request only by grant or failed send, queue = keys of the request map without duplicates, no empty request "
        "stays queued, and without a grant every still-requested room was locked. (b) Service loop: RoomLockService::start is executed from MIR, the task it spawns is "
        "captured and polled with a scripted queue (13 scripts of 1-4 RequestLock / Unlock messages; peers, rooms, limit in {1,2} and receiver liveness symbolic): request "
        "merging, unlock handling (rooms not held, double unlocks) and the grant loop are the real code from the initial state. A specification is folded over the observed "
        "grants as formulas over the room alphabet and z3 shows: a room is never granted while held, never more rooms than the limit, only rooms the connection is "
        "waiting for, and after every handled message no free slot coexists with a requested room nobody holds. Every service path and ~10% of the step paths are "
        "replayed natively (real service task through request_locks / unlock; real async fn with full final-state comparison).",
   note="Bounded scripts from the initial state (quick: up to 4 messages, thorough: up to 5); liveness only in the bounded safety form above; the release of held rooms "
        "when a connection ends (peer_inbound_service) and fairness of the rotation are outside.",
   design='DESIGN.md §3 C20'),
 'C06': dict(
   level='model_checking',
   text="The digest code of every signed kind (Node::hash, Edge::hash, the tombstones' sign / verify) and the raw signing arm of process_message (first poll segment of "
        "the coroutine) are executed from MIR with blake3 as a recorder, on rows whose fixed fields are fully symbolic and whose variable fields are symbolic byte "
        "sequences (z3 Seq theory, <= 20/40 bytes). With blake3 and Ed25519 ideal, 'a signature valid for row a is valid for row b' is the z3 query stream(a) = stream(b): "
        "decided per single differing element (must be unsat: a dropped field is caught), per pair of kinds (same kind: variable-extent boundaries; cross kind: domain "
        "separation), for sign-vs-verify stream equality of tombstones, and for the signing oracle. Every sat answer is replayed natively: a real Ed25519 signature made for "
        "row a is transplanted onto row b and checked with the real verify() of b's kind.",
   note="On the unchanged tree 12 collision classes are genuine and recorded in KNOWN_FINDINGS.json (format change, not a small repair): each is printed as KNOWN-FINDING, "
        "and the query is asked again with the recorded class excluded, so a new class (e.g. a field dropped from a digest) is still a VIOLATION. Ideal-crypto assumptions and "
        "the printable-ASCII restriction of witness text fields are listed in the evidence.",
   design='DESIGN.md §3 C06'),
 'C08': dict(
   level='model_checking',
   text="Membership kernel. (a) RoomAuthorisations::rooms_for_peer is executed from MIR on symbolic room histories, key and date, for every map order, and z3 shows a room is "
        "listed exactly when the oracle says the key is an enabled admin / user / user admin at that date. (b) The first poll segment of the InboundQueryService::process_inbound "
        "coroutine is executed for each of the 13 request kinds with a symbolic room, every allowed-room set over {R1,R2,R3}, symbolic bound key and conn_ready; every call "
        "into GraphDatabaseService and every reply is an observable event: a data access naming room r implies r is allowed (and is the room that was checked), the room list "
        "needs a bound key and conn_ready, the fingerprint goes only to the own key, a refused request is answered with success = false. (c) The first poll segments of "
        "LocalPeerService::process_local_event: a room is admitted on a definition change only for a key that is an enabled member at that time, and for a key that is "
        "no longer a member (former member) the room is revoked for the connection. Sampled paths and counterexamples are replayed natively: process_inbound against a "
        "real GraphDatabaseService, process_local_event through its real async fn, and the revocation on the real InboundQueryService task (a RoomNode request "
        "before and after the definition change).",
   note="Only the code up to the first suspension of each handler is executed (every arm awaits the database); the SQL row filters by room behind the arms are outside the "
        "claim; the maintenance of allowed_room is covered for single events only (admission, revocation), not for sequences of events. tokio Mutex::lock is modelled uncontended.",
   design='DESIGN.md §3 C08'),
 'C03': dict(
   level='model_checking',
   text="Version-selection kernel only. Node::filter_existing - the function that decides, for every row identifier a peer announces, whether the announced version "
        "replaces the stored one - is executed from MIR with the SQL cursor replaced by symbolic rows (prepare / query / rows.next / row.get return the rows the driver "
        "supplies) and Vec<u8> ordering abstracted by an injective rank; the HashSet of identifiers is modelled with the id-only equality of NodeIdentifier, which is "
        "itself checked against the real PartialEq impl. The function is run two and three times with the roles of the versions exchanged and z3 shows: the same "
        "version is never requested again; of two different versions of a row exactly one replaces the other (nobody keeps his own, nobody swaps for ever); "
        "a over b and b over c implies a over c (the winner does not depend on the order of arrival); the decision for a row does not depend on the other rows of the "
        "batch; an identifier that is not stored is always requested and the replacement names the stored row. Sampled paths and counterexamples are replayed on the "
        "real function over an in-memory SQLite.",
   note="This is the last-writer-wins core of convergence, not convergence: the async pull (synchronise_room*), the daily-log comparison that decides which days are "
        "exchanged, fetching / validating / writing the selected rows, edges and deletion records are outside (SQL and network). That SELECT ... WHERE id IN (...) "
        "returns exactly the stored rows with those ids is assumed.",
   design='DESIGN.md §3 C03'),
 'C11': dict(
   level='model_checking',
   text="Fetch-selection kernel only. Whether a row announced by a peer is fetched and stored again is decided by Node::filter_existing and by nothing after it. The real "
        "function is executed from MIR with a symbolic SQL cursor serving two tables by name - _node (stored rows) and _node_deletion_log (tombstones; columns are read "
        "from the SQL text the function prepares, SQL over any other table is reported as not modelled) - on the state a local deletion leaves: the row is gone, its "
        "tombstone with a symbolic version date is in the log; alone or together with an announced unrelated row (stored or unknown). z3 decides whether a version that "
        "is not newer than the deleted one can be requested. Counterexamples and samples are replayed through the public API of a real database: mutate, delete, "
        "filter_existing_node, add_nodes, query.",
   note="On the unchanged tree the obligation FAILS for every input (the function never reads the deletion log): recorded in KNOWN_FINDINGS.json with the reason it "
        "is not repaired here, printed as KNOWN-FINDING. A repair that consults the log is decided by the same check (the cursor already serves that table); a partial "
        "repair (same version only) shows as a new violation (signature ...:older). Outside: convergence of deletion records across peers, edges, the pull protocol.",
   design='DESIGN.md §3 C11'),
 'C17': dict(
   level='model_checking',
   text="Index maintenance of synchronised rows only. The path of a row received from a peer - GraphDatabase::add_nodes, the AddNodes arm of process_message, "
        "NodeToInsert::write, Node::write - is executed from MIR (coroutines run through their awaits), the last step on a connection that records every SQL "
        "statement with its parameters; extract_json is an uninterpreted function of the JSON text. For a new row and for a row replacing a stored version, with the "
        "entity's indexing flag symbolic, z3 decides: indexing enabled => an INSERT into _node_fts carries the row's storage slot and the text of its JSON (and the "
        "'delete' command carries the previous text when a version is replaced); indexing disabled => no statement touches _node_fts. Counterexamples and samples "
        "are replayed on two real database instances (room export / import, filter_existing_node, add_nodes, then search queries).",
   note="On the unchanged tree the obligation FAILS for every row of an indexed entity (synchronised rows are never indexed): recorded in KNOWN_FINDINGS.json with "
        "the reason it is not repaired here, printed as KNOWN-FINDING; a candidate repair is decided by the same check (notes/c17_candidate_repair.diff). Outside: that "
        "FTS5 answers MATCH exactly for the recorded texts, local writes, deletions, reuse of storage slots, the trigram tokenizer.",
   design='DESIGN.md §3 C17'),
 'C18': dict(
   level='model_checking',
   text="Room-definition kernel, last step only. The RoomNodeWrite arm of AuthorisationService::process_message (what runs when the writer reports on a synchronised room "
        "definition) is executed from MIR - the coroutine is run through its awaits - on a symbolic RoomNode (1 admin, 1 group, 1-2 entries per list, symbolic dates and "
        "flags), for a successful and a failed write, with the room already registered or not. z3 / structural comparison show: after a successful write the room is "
        "registered, exactly one room-modified event is sent and the room it carries and the room registered are the definition RoomNode::parse gives for what was "
        "written, and the write is acknowledged; after a failed write nothing is registered or announced and the failure is reported. Sampled paths and counterexamples "
        "are replayed on the real async fn with a real EventService subscriber, writer handle and reply channel.",
   note="Only this: that the writer reports every committed definition, local room mutations (RoomMutationWrite re-validates a MutationQuery), every data-changed event "
        "(built from the SQL recomputation pass in a spawned loop) and the broadcast channel are outside. Most of C18 is therefore NOT covered.",
   design='DESIGN.md §3 C18'),
 'C19': dict(
   level='model_checking',
   text="Handshake and invitation-consumption kernels. (a) PeerManager::invite_accepted (an async fn over six database awaits) is executed from MIR to completion in one "
        "poll - every awaited call completes with a chosen Ok/Err - on a symbolic token table holding the invitation under its derived token plus a symbolic other "
        "entry (same or different token, either order); afterwards the real PeerManager::get_token_type is executed for the invitation's token and a symbolic key, and z3 "
        "shows it can no longer answer with that invitation (single use). (b) LocalPeerService::initialise_connection is executed for each token type with a symbolic "
        "identity answer, expected key, local key and invitation signature; Ed25519 verification is an uninterpreted predicate, key import an uninterpreted well-formedness "
        "predicate. z3 shows that on every path with a trust effect (remote key bound to the connection, invitation consumed, peer reported connected, ready event sent) "
        "the answer verifies against the challenge drawn by this very call under the key that is bound / reported, that key is the one expected for an allowed-peer token, "
        "and an accepted invitation is signed by it; paths without proof have no effect at all. Every handshake path and sampled consumption paths are run natively: the real "
        "async fn against a scripted remote side with real Ed25519 keys and signatures; the real PeerManager on two database instances (create_invite / accept_invite / "
        "invite_accepted / get_token_type).",
   note="Kernel only: the QUIC transport, the derivation of meeting tokens (X25519 + BLAKE3, idealised as uninterpreted functions), what PeerConnectionService does with the "
        "messages, persistence of invitations across restarts, and the application check of accept_invite are outside. Found and fixed on the pinned tree: consumed invitations "
        "stayed in the token table (ec69d66).",
   design='DESIGN.md §3 C19'),
 'C10': dict(
   level='model_checking',
   text="Construction kernel: on one symbolic history (1-3 entries per list for fixed key patterns: enabled / disabled / re-enabled users, replaced rights, all-rows-"
        "without-own-rows flags; 64-bit dates and flags symbolic; authorised by the admin) three builders of a Room are executed from MIR: the live add_* sequence, the "
        "import path (the RoomNode the REAL RoomNode::read / AuthorisationNode::read / UserNode::read / EntityRightNode::read assemble, executed over a modelled store "
        "that answers their two lookups - references by (source, label), rows by (id, entity) - from exactly the accepted rows; then prepare_new_room and parse), and the reload path (the JSON tree LOAD_QUERY returns, lists ordered as its order_by directions demand, "
        "through load_json / load_auth_from_json). z3 shows that import and reload succeed on every history the live path accepted and that can / is_admin / "
        "is_user_valid_at agree on a symbolic (key, entity, date, right). Counterexamples are replayed through the public API on two real database instances "
        "(mutations, restart, get_room_node + add_room_node).",
   note="Only the ORDER in which the SQL layer presents entries is taken from the code (comparators interpreted, LOAD_QUERY directions parsed); that the reload JSON / exported "
        "rows contain exactly the accepted entries is assumed (SQL is outside). JSON rows are modelled by uninterpreted field functions.",
   design='DESIGN.md §3 C10'),
 'C07': dict(
   level='model_checking',
   text="Merge kernel: RoomAuthorisations::prepare_room_node (check_consistency, prepare_room_with_history, prepare_auth_with_history, prepare_new_room, prepare_new_auth, "
        "RoomNode::parse) is executed from MIR on an existing room with a symbolic history and a candidate assembled by a symbolic attacker: the old rows plus one extra row "
        "in the admin / user-admin / user / right list that is either fresh (symbolic author, date, content) or an existing validly signed row replayed from another list, "
        "attached by a reference whose author, date, label, source and target are symbolic; also omissions, an altered old row, and a first-seen room. z3 shows for every "
        "accepted candidate that the old entries are still present unchanged, and that the added entry's row AND the reference placing it were authored by a key entitled "
        "at the entry's date and designate that container, list and row. Counterexamples are replayed on the real prepare_room_node + parse.",
   note="Three classes are genuine on the pinned tree (references are not authorship-checked: a user admin makes itself room admin) and are recorded in KNOWN_FINDINGS.json "
        "with the reason they were not repaired; every failing obligation is reported under its own signature so a recorded class cannot hide another. Signature "
        "verification (ideal) and JSON decoding of entry rows (uninterpreted) are outside; bounds: one extra row, single-entry histories in the quick tier.",
   design='DESIGN.md §3 C07'),
 'C04': dict(
   level='model_checking',
   text="SQL-text half only: get_where_filters (scalar / system / array / entity fields, with and without defaults, selected or not, JSON-selector filters), "
        "get_having_filters, get_search_filter, get_paging and get_limit are executed from MIR on hand-built EntityParams whose value leaves (string / binary literals, "
        "default strings) are symbolic byte sequences (z3 Seq, any 7-bit byte including quotes, backslash, NUL). Two runs with independent value symbols must yield the "
        "same SQL text (z3: sql_a != sql_b unsat) and every literal value must arrive unchanged in the bound-parameter list. A sat answer is a value that changes the "
        "statement, replayed on the real function and prepared on an in-memory SQLite.",
   note="Outside: the round-trip half of the property (needs SQLite's JSON functions), literal un-escaping in the pest parsers, identifiers and aliases (grammar-restricted, "
        "kept concrete). Strings are restricted to 7-bit bytes so that witnesses are valid Rust Strings.",
   design='DESIGN.md §3 C04'),
}

NA = {
 'C05': "the meaning of generated SQL is SQLite's; no implementation-side evaluator to encode",
 'C13': "crash points / WAL durability / rollback are SQLite behaviour behind FFI; rusqlite::Connection cannot be made symbolic",
 'C16': "a schedule property of reader pool + actor + writer threads over SQLite; Kani/mirsym do not handle concurrency",
}
PENDING = "driver not finished yet (DESIGN.md §6 build order); not claimed until it runs end to end"

def main():
    props = [json.loads(l)['id'] for l in open('/verif/properties.jsonl')]
    checks = []
    for pid in props:
        c = CLAIMS.get(pid)
        if not c:
            continue
        checks.append(dict(
            property_id=pid,
            quick_cmd='./check %s --tier quick' % pid,
            thorough_cmd='./check %s --tier thorough' % pid,
            evidence_file='/verif/evidence/%s.json' % pid,
            replay_cmd_template='./replay {path}',
            engine='mirsym',
            level_claimed=dict(category=c['level'], text=c['text'], design_ref=c['design']),
            level_note=c['note'],
            technique=c.get('technique', TECH)))
    na = [dict(property_id=p, reason=NA.get(p, PENDING)) for p in props if p not in CLAIMS]
    m = dict(version=1,
        setup_cmd='./setup.sh',
        hooks=dict(guard='--cfg discret_verif (rustc cfg flag; cfg(kani) is set by Kani itself)',
                   enable="RUSTFLAGS='--cfg discret_verif' CARGO_TARGET_DIR=/var/cache/discret-verif/target-native cargo test --offline --lib --no-run",
                   baseline_off_cmd='cd /repo && cargo test --workspace --no-fail-fast --offline',
                   source_commits=HOOK_COMMITS, add_only=True),
        engines=[dict(name='mirsym', path='/verif/mirsym', serves_properties=sorted(CLAIMS),
                      kind_free_text='bounded symbolic executor over rustc MIR (python + z3), native replay of every model'),],
        checks=checks,
        notes="Solver-based checking of the real code: see DESIGN.md. Exit 2 = inconclusive (never a pass). KNOWN_FINDINGS.json lists recorded and fixed defects.",
        not_applicable=na)
    json.dump(m, open('/verif/MANIFEST.json', 'w'), indent=1)
    import jsonschema
    jsonschema.validate(m, json.load(open('/root/.vp/MANIFEST.schema.json')))
    print('MANIFEST ok: claimed', sorted(CLAIMS), 'n/a', [x['property_id'] for x in na])
main()
