#!/bin/bash
# usage: seed_confirm.sh <dir-with-X_patch.diff,X_demo.diff> <x>
# confirms in a scratch worktree (HEAD of /repo): with patch -> existing tests pass and the demo fails; without patch -> demo passes
D=$1; X=$2
WT=/tmp/confirm/wt
cd $WT || exit 9
git checkout -q --detach $(git -C /repo rev-parse HEAD) 2>/dev/null
git checkout -q -- . ; git clean -fdq
export CARGO_TARGET_DIR=/tmp/confirm/target
git apply $D/${X}_patch.diff || { echo "patch does not apply"; exit 8; }
cargo test --offline --lib > /tmp/confirm/${X}_mut_only.log 2>&1
R1=$(grep "test result" /tmp/confirm/${X}_mut_only.log | tail -1)
git apply $D/${X}_demo.diff 2>/dev/null || patch -p1 -s --fuzz=3 < $D/${X}_demo.diff || { echo "demo does not apply"; exit 8; }
cargo test --offline --lib > /tmp/confirm/${X}_mut_demo.log 2>&1
R2=$(grep "test result" /tmp/confirm/${X}_mut_demo.log | tail -1)
F2=$(grep -E "^test .* FAILED" /tmp/confirm/${X}_mut_demo.log | tr '\n' ' ')
git apply -R $D/${X}_patch.diff
cargo test --offline --lib > /tmp/confirm/${X}_demo_only.log 2>&1
R3=$(grep "test result" /tmp/confirm/${X}_demo_only.log | tail -1)
git checkout -q -- . ; git clean -fdq
echo "mutant only : $R1"
echo "mutant+demo : $R2   failed: $F2"
echo "demo only   : $R3"
