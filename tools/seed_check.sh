#!/bin/bash
# usage: seed_check.sh <PROP> <patch.diff> [tier]   — apply a seeded change to /repo, run the property's check, undo
PROP=$1; PATCH=$2; TIER=${3:-quick}
cd /repo || exit 9
if ! git diff --quiet; then echo "REPO NOT CLEAN"; exit 9; fi
git apply "$PATCH" || { echo "PATCH DOES NOT APPLY"; exit 8; }
cd /verif
./check $PROP --tier $TIER > /tmp/seed_check_$PROP.log 2>&1
RC=$?
git -C /repo checkout -- .
grep -E "VIOLATION|signature:|KNOWN|INCONCL" /tmp/seed_check_$PROP.log | grep -v "^KNOWN-FINDING" | head -8
tail -1 /tmp/seed_check_$PROP.log
echo "exit=$RC"
# restore evidence of the unchanged tree
git -C /verif checkout -- evidence/$PROP.json 2>/dev/null
exit $RC
