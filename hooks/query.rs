// Native replay of the SQL clause builders of query.rs (private fns) — cfg(discret_verif) only.
use super::*;
use crate::database::query_language::data_model_parser::Field;
use crate::database::query_language::query_parser::{EntityParams, FilterParam};
use crate::database::query_language::{FieldType, ParamValue};
use serde_json::{json, Value};

fn where_sql(value_kind: &str, field_kind: &str, selected: bool, values: &Vec<String>) -> (String, Vec<String>) {
    let mut vals = values.iter();
    let value = match value_kind {
        "variable" => FieldValue::Variable("var_a".to_string()),
        "String" => FieldValue::Value(ParamValue::String(vals.next().cloned().unwrap_or_default())),
        "Binary" => FieldValue::Value(ParamValue::Binary(vals.next().cloned().unwrap_or_default())),
        "Integer" => FieldValue::Value(ParamValue::Integer(42)),
        "Boolean" => FieldValue::Value(ParamValue::Boolean(true)),
        _ => FieldValue::Value(ParamValue::Null),
    };
    let mut field = Field::new();
    field.name = "name".to_string();
    field.short_name = "32".to_string();
    field.field_type = FieldType::String;
    match field_kind {
        "system" => field.is_system = true,
        "scalar-default-int" => { field.field_type = FieldType::Integer; field.default_value = Some(ParamValue::Integer(7)); }
        "scalar-default-string" => field.default_value = Some(ParamValue::String(vals.next().cloned().unwrap_or_default())),
        "array" => field.field_type = FieldType::Array("ns.Other".to_string()),
        "entity" => field.field_type = FieldType::Entity("ns.Other".to_string()),
        _ => {}
    }
    let mut params = EntityParams::new();
    params.filters.push(FilterParam { name: "name".to_string(), operation: "=".to_string(), value, is_aggregate: false, is_selected: selected, field });
    let mut sq = SingleQuery::default();
    let sql = get_where_filters(&params, &mut sq, 1);
    (sql, sq.var_order.iter().map(|p| p.value.clone()).collect())
}

pub fn replay_sql_clause(sc: &Value) -> Value {
    let sh = &sc["shape"];
    if sh["part"].as_str().unwrap() != "where" {
        return json!({"status": "skipped"});
    }
    let get = |k: &str| -> Vec<String> { sc[k].as_array().map(|a| a.iter().map(|x| x.as_str().unwrap_or("").to_string()).collect()).unwrap_or_default() };
    let (a, pa) = where_sql(sh["value"].as_str().unwrap(), sh["field"].as_str().unwrap(), sh["selected"].as_i64().unwrap_or(0) != 0, &get("values_a"));
    let (b, _pb) = where_sql(sh["value"].as_str().unwrap(), sh["field"].as_str().unwrap(), sh["selected"].as_i64().unwrap_or(0) != 0, &get("values_b"));
    // does SQLite still accept the statement built around the clause?
    let conn = rusqlite::Connection::open_in_memory().unwrap();
    conn.execute("CREATE TABLE t (value TEXT, _json TEXT, name TEXT)", []).unwrap();
    let prepares = |clause: &str| conn.prepare(&format!("SELECT 1 FROM t WHERE 1=1 {}", clause)).is_ok();
    json!({"status": "done", "sql_differs": a != b, "sql_a": a, "sql_b": b, "bound_a": pa, "a_prepares": prepares(&a), "b_prepares": prepares(&b)})
}
