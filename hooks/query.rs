// Native replay of the SQL clause builders of query.rs (private fns) — cfg(discret_verif) only.
use super::*;
use crate::database::query_language::data_model_parser::Field;
use crate::database::query_language::query_parser::{Direction, EntityParams, FilterParam, JsonFilter, OrderBy};
use crate::database::query_language::{FieldType, ParamValue};
use serde_json::{json, Value};

fn fvalue(kind: &str, vals: &mut std::slice::Iter<String>, name: &str) -> FieldValue {
    match kind {
        "variable" => FieldValue::Variable(format!("var_{}", name)),
        "String" => FieldValue::Value(ParamValue::String(vals.next().cloned().unwrap_or_default())),
        "Binary" => FieldValue::Value(ParamValue::Binary(vals.next().cloned().unwrap_or_default())),
        "Integer" => FieldValue::Value(ParamValue::Integer(42)),
        "Boolean" => FieldValue::Value(ParamValue::Boolean(true)),
        _ => FieldValue::Value(ParamValue::Null),
    }
}

fn field(kind: &str, vals: &mut std::slice::Iter<String>) -> Field {
    let mut field = Field::new();
    field.name = "name".to_string();
    field.short_name = "32".to_string();
    field.field_type = FieldType::String;
    match kind {
        "system" => field.is_system = true,
        "scalar-default-int" => { field.field_type = FieldType::Integer; field.default_value = Some(ParamValue::Integer(7)); }
        "scalar-default-string" => field.default_value = Some(ParamValue::String(vals.next().cloned().unwrap_or_default())),
        "array" => field.field_type = FieldType::Array("ns.Other".to_string()),
        "entity" => field.field_type = FieldType::Entity("ns.Other".to_string()),
        _ => {}
    }
    field
}

/// builds the same structures as the symbolic driver (same order of value consumption) and runs the real clause builder
fn clause_sql(sh: &Value, values: &Vec<String>) -> (String, Vec<String>) {
    let mut vals = values.iter();
    let mut params = EntityParams::new();
    let mut sq = SingleQuery::default();
    let vk = sh["value"].as_str().unwrap_or("variable");
    let sql = match sh["part"].as_str().unwrap() {
        "where" => {
            let value = fvalue(vk, &mut vals, "a");
            let f = field(sh["field"].as_str().unwrap(), &mut vals);
            params.filters.push(FilterParam { name: "name".to_string(), operation: "=".to_string(), value, is_aggregate: false,
                                              is_selected: sh["selected"].as_i64().unwrap_or(0) != 0, field: f });
            get_where_filters(&params, &mut sq, 1)
        }
        "json_filter" => {
            let value = fvalue(vk, &mut vals, "a");
            params.json_filters.push(JsonFilter { selector: "'$.a.b'".to_string(), operation: "=".to_string(), value, field: field("scalar", &mut vals) });
            get_where_filters(&params, &mut sq, 1)
        }
        "having" => {
            let value = fvalue(vk, &mut vals, "a");
            params.aggregate_filters.push(FilterParam { name: "total".to_string(), operation: ">".to_string(), value, is_aggregate: true, is_selected: true,
                                                        field: field("scalar", &mut vals) });
            get_having_filters(&params, &mut sq, 1)
        }
        "search" => {
            params.fulltext_search = Some(fvalue(vk, &mut vals, "a"));
            get_search_filter(&params, &mut sq, 1)
        }
        "paging" => {
            let mut keys = vec![fvalue(vk, &mut vals, "a")];
            params.order_by.push(OrderBy { name: "name".to_string(), direction: Direction::Asc, is_selected: true, field: field("scalar", &mut vals) });
            if let Some(v2) = sh.get("value2").and_then(|x| x.as_str()) {
                keys.push(fvalue(v2, &mut vals, "a2"));
                params.order_by.push(OrderBy { name: "age".to_string(), direction: Direction::Desc, is_selected: false, field: field("scalar", &mut vals) });
            }
            if sh.get("before").is_some() { params.before = keys; } else { params.after = keys; }
            get_paging(&params, &mut sq)
        }
        "fields" => {
            use crate::database::query_language::query_parser::{EntityQuery, QueryField, QueryFieldType};
            let f = field(sh["field"].as_str().unwrap(), &mut vals);
            let field_type = match sh["qft"].as_str().unwrap() {
                "Binary" => QueryFieldType::Binary,
                "Json" => QueryFieldType::Json,
                _ => QueryFieldType::Scalar,
            };
            let mut eq = EntityQuery::new();
            eq.name = "ns.E".to_string();
            eq.short_name = "1".to_string();
            eq.fields.push(QueryField { field: f, alias: None, json_selector: None, field_type });
            get_fields(&eq, &mut sq, "_node", 1)
        }
        _ => {
            params.first = fvalue(vk, &mut vals, "a");
            get_limit(&params, &mut sq)
        }
    };
    (sql, sq.var_order.iter().map(|p| p.value.clone()).collect())
}

pub fn replay_sql_clause(sc: &Value) -> Value {
    let sh = &sc["shape"];
    let get = |k: &str| -> Vec<String> { sc[k].as_array().map(|a| a.iter().map(|x| x.as_str().unwrap_or("").to_string()).collect()).unwrap_or_default() };
    let (a, pa) = clause_sql(sh, &get("values_a"));
    let (b, _pb) = clause_sql(sh, &get("values_b"));
    json!({"status": "done", "sql_differs": a != b, "sql_a": a, "sql_b": b, "bound_a": pa})
}
