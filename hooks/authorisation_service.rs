// Native replay driver (E3) for the authorisation kernel: builds the REAL structures from a scenario
// written by the symbolic checks and calls the REAL functions.  Compiled only under
// `--cfg discret_verif` (see MANIFEST.hooks); lives in /verif, included by a one-line hook.
#![allow(dead_code, unused_imports, unused_variables)]

use super::*;
use crate::database::deletion::{DeletionQuery, EdgeDelete, NodeDelete};
use crate::database::edge::{Edge, EdgeDeletionEntry};
use crate::database::mutation_query::{InsertEntity, MutationQuery, NodeToMutate};
use crate::database::node::{Node, NodeDeletionEntry, NodeToInsert};
use crate::database::room::{Authorisation, EntityRight, RightType, Room, User};
use crate::security::{derive_uid, Ed25519SigningKey, SigningKey, Uid, VerifyingKey};
use serde_json::{json, Value};
use std::collections::{HashMap, HashSet};

pub struct Keys {
    pub map: HashMap<String, Ed25519SigningKey>,
}
impl Keys {
    pub fn new() -> Self {
        Self { map: HashMap::new() }
    }
    pub fn signing(&mut self, name: &str) -> &Ed25519SigningKey {
        if !self.map.contains_key(name) {
            let seed = blake3::hash(name.as_bytes());
            self.map
                .insert(name.to_string(), Ed25519SigningKey::create_from(seed.as_bytes()));
        }
        self.map.get(name).unwrap()
    }
    pub fn vk(&mut self, name: &str) -> Vec<u8> {
        self.signing(name).export_verifying_key()
    }
}

pub fn uid(name: &str) -> Uid {
    derive_uid("verif", name.as_bytes())
}

fn s(v: &Value) -> String {
    v.as_str().unwrap().to_string()
}
fn i(v: &Value) -> i64 {
    v.as_i64().unwrap()
}
fn b(v: &Value) -> bool {
    v.as_bool().unwrap()
}

pub fn build_room(v: &Value, keys: &mut Keys) -> std::result::Result<Room, String> {
    let mut room = Room {
        id: uid(v["id"].as_str().unwrap()),
        ..Default::default()
    };
    for a in v["admins"].as_array().unwrap() {
        room.add_admin_user(User {
            verifying_key: keys.vk(a[0].as_str().unwrap()),
            date: i(&a[1]),
            enabled: b(&a[2]),
        })
        .map_err(|e| format!("add_admin_user: {}", e))?;
    }
    for g in v["groups"].as_array().unwrap() {
        let mut auth = Authorisation {
            id: uid(g["id"].as_str().unwrap()),
            ..Default::default()
        };
        for a in g["users"].as_array().unwrap() {
            auth.add_user(User {
                verifying_key: keys.vk(a[0].as_str().unwrap()),
                date: i(&a[1]),
                enabled: b(&a[2]),
            })
            .map_err(|e| format!("add_user: {}", e))?;
        }
        for a in g["user_admins"].as_array().unwrap() {
            auth.add_user_admin(User {
                verifying_key: keys.vk(a[0].as_str().unwrap()),
                date: i(&a[1]),
                enabled: b(&a[2]),
            })
            .map_err(|e| format!("add_user_admin: {}", e))?;
        }
        for r in g["rights"].as_array().unwrap() {
            auth.add_right(EntityRight::new(i(&r[1]), s(&r[0]), b(&r[2]), b(&r[3])))
                .map_err(|e| format!("add_right: {}", e))?;
        }
        room.add_auth(auth).map_err(|e| format!("add_auth: {}", e))?;
    }
    Ok(room)
}

fn opt_uid(v: &Value) -> Option<Uid> {
    if v.is_null() {
        None
    } else {
        Some(uid(v.as_str().unwrap()))
    }
}

fn build_node(id: &str, v: &Value, keys: &mut Keys) -> Node {
    let json = match v.get("json") {
        Some(j) if !j.is_null() => Some(s(j)),
        _ => Some("{}".to_string()),
    };
    Node {
        id: uid(id),
        room_id: opt_uid(&v["room"]),
        cdate: v["cdate"].as_i64().unwrap_or(0),
        mdate: v["mdate"].as_i64().unwrap_or(0),
        _entity: v["short"].as_str().unwrap_or("1.0").to_string(),
        _json: json,
        _binary: None,
        verifying_key: keys.vk(v["author"].as_str().unwrap()),
        _signature: vec![],
        _local_id: None,
    }
}

fn build_edge(v: &Value, keys: &mut Keys) -> Edge {
    Edge {
        src: uid(v["src"].as_str().unwrap()),
        src_entity: v["src_entity"].as_str().unwrap_or("1.0").to_string(),
        label: v["label"].as_str().unwrap_or("l").to_string(),
        dest: uid(v["dest"].as_str().unwrap()),
        cdate: v["cdate"].as_i64().unwrap_or(0),
        verifying_key: keys.vk(v["author"].as_str().unwrap()),
        signature: vec![],
    }
}

fn build_insert(v: &Value, keys: &mut Keys) -> InsertEntity {
    let id = v["id"].as_str().unwrap();
    let node = if v["node"].is_null() {
        None
    } else {
        Some(build_node(id, &v["node"], keys))
    };
    let old_node = if v["old"].is_null() {
        None
    } else {
        Some(build_node(id, &v["old"], keys))
    };
    let mut sub_nodes = HashMap::new();
    if let Some(subs) = v.get("subs") {
        if let Some(map) = subs.as_object() {
            for (k, arr) in map {
                let list: Vec<InsertEntity> = arr
                    .as_array()
                    .unwrap()
                    .iter()
                    .map(|c| build_insert(c, keys))
                    .collect();
                sub_nodes.insert(k.clone(), list);
            }
        }
    }
    let mut edge_deletions = vec![];
    if let Some(d) = v.get("dels") {
        for e in d.as_array().unwrap() {
            edge_deletions.push(build_edge(e, keys));
        }
    }
    InsertEntity {
        name: "x".to_string(),
        node_to_mutate: NodeToMutate {
            id: uid(id),
            date: i(&v["date"]),
            entity: s(&v["entity"]),
            room_id: opt_uid(&v["room"]),
            node,
            node_fts_str: None,
            old_node,
            old_fts_str: None,
            enable_full_text: true,
        },
        edge_deletions,
        edge_deletions_log: vec![],
        edge_insertions: vec![],
        sub_nodes,
    }
}

fn room_auth(sc: &Value, keys: &mut Keys) -> std::result::Result<RoomAuthorisations, String> {
    let caller = sc["caller"].as_str().unwrap();
    let seed = blake3::hash(caller.as_bytes());
    // the size limit reproduces the relation (below / equal / above) between the row's REAL serialised size and the limit
    let mut max_node_size = sc["max_node_size"].as_u64().unwrap_or(u64::MAX);
    if let Some(rel) = sc.get("size_rel").and_then(|r| r.as_str()) {
        let probe = if !sc["tree"].is_null() && !sc["tree"]["node"].is_null() {
            Some(build_node(sc["tree"]["id"].as_str().unwrap_or(""), &sc["tree"]["node"], keys))
        } else if !sc["node"].is_null() {
            Some(build_node(sc["id"].as_str().unwrap_or(""), &sc["node"], keys))
        } else {
            None
        };
        if let Some(n) = probe {
            let size = bincode::serialized_size(&n).unwrap();
            max_node_size = match rel {
                "gt" => size - 1,
                "eq" => size,
                _ => size + 1000,
            };
        }
    }
    let mut ra = RoomAuthorisations {
        signing_key: Ed25519SigningKey::create_from(seed.as_bytes()),
        rooms: HashMap::new(),
        max_node_size,
    };
    for r in sc["rooms"].as_array().unwrap() {
        let room = build_room(r, keys)?;
        ra.add_room(room);
    }
    Ok(ra)
}

fn replay_entity_mutation(sc: &Value) -> Value {
    let mut keys = Keys::new();
    let ra = match room_auth(sc, &mut keys) {
        Ok(r) => r,
        Err(e) => return json!({"status": "precondition", "detail": e}),
    };
    let caller_vk = keys.vk(sc["caller"].as_str().unwrap());
    let mut ie = build_insert(&sc["tree"], &mut keys);
    let res = ra.validate_entity_mutation(&mut ie, &caller_vk);
    match res {
        Ok(rooms) => json!({"status": "done", "result": "Ok", "rooms_returned": rooms.len()}),
        Err(e) => json!({"status": "done", "result": "Err", "error": format!("{}", e)}),
    }
}

fn replay_deletion(sc: &Value) -> Value {
    let mut keys = Keys::new();
    let ra = match room_auth(sc, &mut keys) {
        Ok(r) => r,
        Err(e) => return json!({"status": "precondition", "detail": e}),
    };
    let mut dq = DeletionQuery {
        nodes: vec![],
        node_log: vec![],
        updated_nodes: vec![],
        updated_nodes_previous_mdate: vec![],
        edges: vec![],
        edge_log: vec![],
    };
    for it in sc["items"].as_array().unwrap() {
        let author = keys.vk(it["author"].as_str().unwrap());
        if it["kind"].as_str().unwrap() == "node" {
            dq.nodes.push(NodeDelete {
                node: Node {
                    id: uid(it["id"].as_str().unwrap()),
                    room_id: opt_uid(&it["room"]),
                    cdate: 0,
                    mdate: i(&it["mdate"]),
                    _entity: s(&it["short"]),
                    _json: Some("{}".to_string()),
                    _binary: None,
                    verifying_key: author,
                    _signature: vec![],
                    _local_id: None,
                },
                name: s(&it["name"]),
                date: i(&it["date"]),
            });
        } else {
            dq.edges.push(EdgeDelete {
                edge: Edge {
                    src: uid(it["src"].as_str().unwrap()),
                    src_entity: s(&it["short"]),
                    label: "l".to_string(),
                    dest: uid(it["dest"].as_str().unwrap()),
                    cdate: i(&it["cdate"]),
                    verifying_key: author,
                    signature: vec![],
                },
                src_name: s(&it["name"]),
                room_id: opt_uid(&it["room"]),
                date: i(&it["date"]),
            });
        }
    }
    let res = ra.validate_deletion(&mut dq);
    match res {
        Ok(()) => json!({"status": "done", "result": "Ok", "node_log": dq.node_log.len(), "edge_log": dq.edge_log.len()}),
        Err(e) => json!({"status": "done", "result": "Err", "error": format!("{}", e)}),
    }
}

fn replay_validate_node(sc: &Value) -> Value {
    let mut keys = Keys::new();
    let ra = match room_auth(sc, &mut keys) {
        Ok(r) => r,
        Err(e) => return json!({"status": "precondition", "detail": e}),
    };
    let id = sc["id"].as_str().unwrap();
    let node = if sc["node"].is_null() {
        None
    } else {
        Some(build_node(id, &sc["node"], &mut keys))
    };
    let nti = NodeToInsert {
        id: uid(id),
        node,
        entity_name: sc["entity_name"].as_str().map(|x| x.to_string()),
        index: true,
        old_room_id: opt_uid(&sc["old_room"]),
        old_mdate: sc["old_mdate"].as_i64().unwrap_or(0),
        old_verifying_key: sc["old_key"].as_str().map(|k| keys.vk(k)),
        old_local_id: None,
        old_fts_str: None,
        node_fts_str: None,
    };
    json!({"status": "done", "result": ra.validate_node(&nti)})
}

fn replay_validate_deletions_remote(sc: &Value) -> Value {
    let mut keys = Keys::new();
    let ra = match room_auth(sc, &mut keys) {
        Ok(r) => r,
        Err(e) => return json!({"status": "precondition", "detail": e}),
    };
    let mut out: Vec<String> = vec![];
    if sc["which"].as_str().unwrap() == "edge" {
        let mut v = vec![];
        for r in sc["rows"].as_array().unwrap() {
            let e = EdgeDeletionEntry {
                room_id: uid(r["room"].as_str().unwrap()),
                src: uid(r["id"].as_str().unwrap()),
                src_entity: "9.9".to_string(),
                dest: uid("dest"),
                label: "l".to_string(),
                cdate: 0,
                deletion_date: i(&r["deletion_date"]),
                verifying_key: keys.vk(r["author"].as_str().unwrap()),
                signature: r["sig"].as_str().unwrap().as_bytes().to_vec(),
                entity_name: r["entity_name"].as_str().map(|x| x.to_string()),
            };
            v.push((e, r["stored"].as_str().map(|k| keys.vk(k))));
        }
        for e in ra.validate_edge_deletions(v) {
            out.push(String::from_utf8(e.signature).unwrap());
        }
    } else {
        let mut v = HashMap::new();
        for r in sc["rows"].as_array().unwrap() {
            let e = NodeDeletionEntry {
                room_id: uid(r["room"].as_str().unwrap()),
                id: uid(r["id"].as_str().unwrap()),
                entity: "9.9".to_string(),
                mdate: 0,
                deletion_date: i(&r["deletion_date"]),
                verifying_key: keys.vk(r["author"].as_str().unwrap()),
                signature: r["sig"].as_str().unwrap().as_bytes().to_vec(),
                entity_name: r["entity_name"].as_str().map(|x| x.to_string()),
            };
            v.insert(e.id, (e, r["stored"].as_str().map(|k| keys.vk(k))));
        }
        for e in ra.validate_node_deletions(v) {
            out.push(String::from_utf8(e.signature).unwrap());
        }
    }
    out.sort();
    json!({"status": "done", "result": out})
}

fn replay_c12_mutation(sc: &Value) -> Value {
    let a = replay_entity_mutation(sc);
    let b = replay_validate_node(sc);
    json!({"status": "done", "local": a["result"], "remote": b["result"]})
}

fn replay_c12_deletion(sc: &Value) -> Value {
    let mut keys = Keys::new();
    let ra = match room_auth(sc, &mut keys) {
        Ok(r) => r,
        Err(e) => return json!({"status": "precondition", "detail": e}),
    };
    let caller_vk = keys.vk(sc["caller"].as_str().unwrap());
    let author = keys.vk(sc["author"].as_str().unwrap());
    let room = uid(sc["room"].as_str().unwrap());
    let id = uid(sc["id"].as_str().unwrap());
    let name = s(&sc["name"]);
    let date = crate::date_utils::now();
    let mut dq = DeletionQuery {
        nodes: vec![],
        node_log: vec![],
        updated_nodes: vec![],
        updated_nodes_previous_mdate: vec![],
        edges: vec![],
        edge_log: vec![],
    };
    let is_node = sc["which"].as_str().unwrap() == "node";
    if is_node {
        dq.nodes.push(NodeDelete {
            node: Node {
                id,
                room_id: Some(room),
                cdate: 0,
                mdate: 0,
                _entity: "9.9".to_string(),
                _json: Some("{}".to_string()),
                _binary: None,
                verifying_key: author.clone(),
                _signature: vec![],
                _local_id: None,
            },
            name: name.clone(),
            date,
        });
    } else {
        dq.edges.push(EdgeDelete {
            edge: Edge {
                src: id,
                src_entity: "9.9".to_string(),
                label: "l".to_string(),
                dest: uid("dest"),
                cdate: 0,
                verifying_key: author.clone(),
                signature: vec![],
            },
            src_name: name.clone(),
            room_id: Some(room),
            date,
        });
    }
    let local = ra.validate_deletion(&mut dq);
    let local_ok = local.is_ok();
    let remote_ok;
    if is_node {
        let mut entry = if local_ok && dq.node_log.len() == 1 {
            dq.node_log.remove(0)
        } else {
            NodeDeletionEntry {
                room_id: room,
                id,
                entity: "9.9".to_string(),
                mdate: 0,
                deletion_date: date,
                verifying_key: caller_vk.clone(),
                signature: vec![],
                entity_name: None,
            }
        };
        entry.entity_name = Some(name.clone());
        let mut m = HashMap::new();
        m.insert(entry.id, (entry, Some(author.clone())));
        remote_ok = ra.validate_node_deletions(m).len() == 1;
    } else {
        let mut entry = if local_ok && dq.edge_log.len() == 1 {
            dq.edge_log.remove(0)
        } else {
            EdgeDeletionEntry {
                room_id: room,
                src: id,
                src_entity: "9.9".to_string(),
                dest: uid("dest"),
                label: "l".to_string(),
                cdate: 0,
                deletion_date: date,
                verifying_key: caller_vk.clone(),
                signature: vec![],
                entity_name: None,
            }
        };
        entry.entity_name = Some(name.clone());
        remote_ok = ra.validate_edge_deletions(vec![(entry, Some(author.clone()))]).len() == 1;
    }
    json!({"status": "done", "local": if local_ok {"Ok"} else {"Err"}, "remote": remote_ok})
}

// ---- C09: generic builders from the field-name JSON the checks write
fn g_uid(v: &Value) -> Uid {
    uid(v.as_str().unwrap_or(""))
}
fn g_opt_uid(v: &Value) -> Option<Uid> {
    if v.is_null() { None } else { Some(g_uid(v)) }
}
fn g_str(v: &Value) -> String {
    v.as_str().unwrap_or("").to_string()
}
fn g_node(v: &Value, keys: &mut Keys) -> Node {
    Node {
        id: g_uid(&v["id"]),
        room_id: g_opt_uid(&v["room_id"]),
        cdate: v["cdate"].as_i64().unwrap_or(0),
        mdate: v["mdate"].as_i64().unwrap_or(0),
        _entity: g_str(&v["_entity"]),
        _json: Some("{}".to_string()),
        _binary: None,
        verifying_key: keys.vk("K1"),
        _signature: vec![],
        _local_id: None,
    }
}
fn g_edge_log(v: &Value, keys: &mut Keys) -> EdgeDeletionEntry {
    EdgeDeletionEntry {
        room_id: g_uid(&v["room_id"]),
        src: g_uid(&v["src"]),
        src_entity: g_str(&v["src_entity"]),
        dest: g_uid(&v["dest"]),
        label: "l".to_string(),
        cdate: v["cdate"].as_i64().unwrap_or(0),
        deletion_date: i(&v["deletion_date"]),
        verifying_key: keys.vk("K1"),
        signature: vec![],
        entity_name: None,
    }
}
fn g_node_log(v: &Value, keys: &mut Keys) -> NodeDeletionEntry {
    NodeDeletionEntry {
        room_id: g_uid(&v["room_id"]),
        id: g_uid(&v["id"]),
        entity: g_str(&v["entity"]),
        mdate: i(&v["mdate"]),
        deletion_date: i(&v["deletion_date"]),
        verifying_key: keys.vk("K1"),
        signature: vec![],
        entity_name: None,
    }
}
fn g_insert(v: &Value, keys: &mut Keys) -> InsertEntity {
    let n = &v["node_to_mutate"];
    let mut sub_nodes = HashMap::new();
    if let Some(arr) = v["sub_nodes"].as_array() {
        for kv in arr {
            let list: Vec<InsertEntity> = kv[1].as_array().unwrap().iter().map(|c| g_insert(c, keys)).collect();
            sub_nodes.insert(g_str(&kv[0]), list);
        }
    }
    InsertEntity {
        name: "x".to_string(),
        node_to_mutate: NodeToMutate {
            id: g_uid(&n["id"]),
            date: i(&n["date"]),
            entity: g_str(&n["entity"]),
            room_id: g_opt_uid(&n["room_id"]),
            node: if n["node"].is_null() { None } else { Some(g_node(&n["node"], keys)) },
            node_fts_str: None,
            old_node: if n["old_node"].is_null() { None } else { Some(g_node(&n["old_node"], keys)) },
            old_fts_str: None,
            enable_full_text: true,
        },
        edge_deletions: vec![],
        edge_deletions_log: v["edge_deletions_log"].as_array().unwrap().iter().map(|e| g_edge_log(e, keys)).collect(),
        edge_insertions: vec![],
        sub_nodes,
    }
}

/// start of the UTC day containing `t` (floor), computed here and not through date_utils::date(): the replay's oracle must not depend on the code under test
fn independent_day(t: i64) -> i64 {
    t.saturating_sub(t.rem_euclid(86_400_000))
}

fn replay_daily_marks(sc: &Value) -> Value {
    use crate::database::daily_log::DailyMutations;
    use crate::database::query_language::mutation_parser::MutationParser;
    let mut keys = Keys::new();
    let mut dm = DailyMutations::default();
    let vals = &sc["values"];
    match sc["part"].as_str().unwrap() {
        "insert" => g_insert(&vals["ie"], &mut keys).update_daily_logs(&mut dm),
        "batch" | "room_mutation" => {
            let ies: Vec<InsertEntity> = vals["ies"].as_array().unwrap().iter().map(|x| g_insert(x, &mut keys)).collect();
            let date = ies[0].node_to_mutate.date;
            let room0 = ies[0].node_to_mutate.id;
            let mq = MutationQuery {
                mutate_entities: ies,
                mutation_parser: std::sync::Arc::new(MutationParser::new()),
                date,
            };
            if sc["part"].as_str().unwrap() == "batch" {
                mq.update_daily_logs(&mut dm);
            } else {
                let (reply, _rx) = tokio::sync::oneshot::channel();
                let mut room_list = HashSet::new();
                room_list.insert(room0);
                let q = RoomMutationWriteQuery { room_list, mutation_query: mq, reply };
                q.update_daily_logs(&mut dm);
            }
        }
        "sync_node" => {
            let n = &vals["nti"];
            let nti = NodeToInsert {
                id: g_uid(&n["id"]),
                node: if n["node"].is_null() { None } else { Some(g_node(&n["node"], &mut keys)) },
                entity_name: None,
                index: true,
                old_room_id: g_opt_uid(&n["old_room_id"]),
                old_mdate: n["old_mdate"].as_i64().unwrap_or(0),
                old_verifying_key: None,
                old_local_id: n["old_local_id"].as_i64(),
                old_fts_str: None,
                node_fts_str: None,
            };
            nti.update_daily_logs(&mut dm);
        }
        "deletion" => {
            let d = &vals["dq"];
            let dq = DeletionQuery {
                nodes: vec![],
                node_log: d["node_log"].as_array().unwrap().iter().map(|e| g_node_log(e, &mut keys)).collect(),
                updated_nodes: d["updated_nodes"].as_array().unwrap().iter().map(|e| g_node(e, &mut keys)).collect(),
                updated_nodes_previous_mdate: d["updated_nodes_previous_mdate"].as_array().map(|a| a.iter().map(|x| x.as_i64().unwrap_or(0)).collect()).unwrap_or_default(),
                edges: vec![],
                edge_log: d["edge_log"].as_array().unwrap().iter().map(|e| g_edge_log(e, &mut keys)).collect(),
            };
            dq.update_daily_logs(&mut dm);
        }
        "sync_tombstones" => {
            let conn = rusqlite::Connection::open_in_memory().unwrap();
            Node::create_tables(&conn).unwrap();
            Edge::create_tables(&conn).unwrap();
            let arr = vals["entries"].as_array().unwrap();
            if sc["shape"]["kind"].as_str().unwrap() == "node" {
                let mut v: Vec<NodeDeletionEntry> = arr.iter().map(|e| g_node_log(e, &mut keys)).collect();
                NodeDeletionEntry::delete_all(&mut v, &mut dm, &conn).unwrap();
            } else {
                let mut v: Vec<EdgeDeletionEntry> = arr.iter().map(|e| g_edge_log(e, &mut keys)).collect();
                EdgeDeletionEntry::delete_all(&mut v, &mut dm, &conn).unwrap();
            }
        }
        other => return json!({"status": "unknown-part", "part": other}),
    }
    let marks = crate::database::daily_log::verif_hook::dump(&dm);
    let mut missing = vec![];
    for r in sc["required"].as_array().unwrap() {
        let room = uid(r["room"].as_str().unwrap());
        let ent = r["entity"].as_str().unwrap();
        let day = independent_day(i(&r["date"]));
        if !marks.iter().any(|(mr, me, md)| *mr == room && me == ent && *md == day) {
            missing.push(r["label"].clone());
        }
    }
    let culprit_missing = match sc.get("culprit") {
        Some(cu) if !cu.is_null() => {
            let room = uid(cu["room"].as_str().unwrap());
            let ent = cu["entity"].as_str().unwrap();
            let day = independent_day(i(&cu["date"]));
            !marks.iter().any(|(mr, me, md)| *mr == room && me == ent && *md == day)
        }
        _ => false,
    };
    json!({"status": "done", "missing": missing, "missing_culprit": culprit_missing, "marks": marks.len()})
}

/// C02 (received references): through the API of a real database.  The local user owns two rooms; the remote author may write
/// ns.E in room A only.  While room A is synchronised it delivers a validly signed reference whose SOURCE row lives in room B.
fn replay_received_edge_foreign_source(sc: &Value) -> Value {
    let has_right = sc["author_has_right"].as_bool().unwrap_or(true);
    let in_room = sc["source_in_room"].as_bool().unwrap_or(false);
    use crate::database::graph_database::GraphDatabaseService;
    use crate::database::query_language::parameter::{Parameters, ParametersAdd};
    let rt = tokio::runtime::Builder::new_multi_thread().enable_all().worker_threads(2).build().unwrap();
    rt.block_on(async {
        let base = std::env::var("VERIF_DATA_DIR").unwrap_or_else(|_| "/var/cache/discret-verif/data".to_string());
        let path: std::path::PathBuf = format!("{}/c02edge/{}", base, crate::security::base64_encode(&crate::security::random32()[0..6])).into();
        std::fs::create_dir_all(&path).unwrap();
        let (app, own_key, _) = GraphDatabaseService::start(
            "verif c02 edges",
            "ns { E{ name:String, refs:[ns.E] } }",
            &crate::security::random32(),
            &crate::security::random32(),
            path,
            &crate::configuration::Configuration::default(),
            crate::event_service::EventService::new(),
        )
        .await
        .unwrap();
        let mut keys = Keys::new();
        let attacker = crate::security::base64_encode(&keys.vk("K2"));
        let own = crate::security::base64_encode(&own_key);
        // room A: the remote author is a user with rights on ns.E; room B: it is nothing
        let mut p = Parameters::default();
        p.add("k", own.clone()).unwrap();
        // without the right: the remote author is not a member of room A at all
        p.add("a", if has_right { attacker.clone() } else { crate::security::base64_encode(&keys.vk("K3")) }).unwrap();
        let ra = app
            .mutate_raw(
                r#"mutate { sys.Room{ admin:[{ verif_key:$k }] authorisations:[{ name:"g" rights:[{ entity:"ns.E" mutate_self:true mutate_all:true }] users:[{ verif_key:$k },{ verif_key:$a }] }] } }"#,
                Some(p),
            )
            .await
            .unwrap();
        let room_a = ra.mutate_entities[0].node_to_mutate.id;
        let mut p = Parameters::default();
        p.add("k", own.clone()).unwrap();
        let rb = app
            .mutate_raw(
                r#"mutate { sys.Room{ admin:[{ verif_key:$k }] authorisations:[{ name:"g" rights:[{ entity:"ns.E" mutate_self:true mutate_all:true }] users:[{ verif_key:$k }] }] } }"#,
                Some(p),
            )
            .await
            .unwrap();
        let room_b = rb.mutate_entities[0].node_to_mutate.id;
        let mut p = Parameters::default();
        p.add("room", crate::security::base64_encode(if in_room { &room_a } else { &room_b })).unwrap();
        let victim = app.mutate_raw(r#"mutate { ns.E{ room_id:$room name:"row of room B" } }"#, Some(p)).await.unwrap();
        let victim_id = victim.mutate_entities[0].node_to_mutate.id;
        let short_entity = victim.mutate_entities[0].node_to_mutate.node.as_ref().unwrap()._entity.clone();
        let mut p = Parameters::default();
        p.add("room", crate::security::base64_encode(&room_a)).unwrap();
        let target = app.mutate_raw(r#"mutate { ns.E{ room_id:$room name:"attached by a stranger" } }"#, Some(p)).await.unwrap();
        let target_id = target.mutate_entities[0].node_to_mutate.id;
        // label = storage id of the field `refs`: taken from a reference written locally on another row
        let mut p = Parameters::default();
        p.add("room", crate::security::base64_encode(&room_a)).unwrap();
        p.add("t", crate::security::base64_encode(&target_id)).unwrap();
        let probe = app.mutate_raw(r#"mutate { ns.E{ room_id:$room name:"probe" refs:[{ id:$t }] } }"#, Some(p)).await.unwrap();
        let label = probe.mutate_entities[0].edge_insertions[0].label.clone();
        let before = app.query(r#"query { ns.E(name="row of room B"){ name refs{ name } } }"#, None).await.unwrap();
        let mut edge = Edge { src: victim_id, src_entity: short_entity, label, dest: target_id, cdate: crate::date_utils::now(), verifying_key: keys.vk("K2"), signature: vec![] };
        edge.sign(keys.signing("K2")).unwrap();
        let refused = app.add_edges(room_a, vec![edge]).await.unwrap();
        let after = app.query(r#"query { ns.E(name="row of room B"){ name refs{ name } } }"#, None).await.unwrap();
        json!({"status": "done", "refused": refused.len(), "stored": after.contains("attached by a stranger"), "before": before.replace('\n', ""), "after": after.replace('\n', "")})
    })
}

/// C02 (received reference deletions): the remote author may delete every row of ns.E in room A only.  It delivers a validly signed
/// deletion record, stamped with room A, for a reference whose SOURCE row lives in room B (or, as a control, in room A).
fn replay_received_edge_deletion_foreign_source(sc: &Value) -> Value {
    use crate::database::graph_database::GraphDatabaseService;
    use crate::database::query_language::parameter::{Parameters, ParametersAdd};
    let has_right = sc["author_has_right"].as_bool().unwrap_or(true);
    let in_room = sc["source_in_room"].as_bool().unwrap_or(false);
    let rt = tokio::runtime::Builder::new_multi_thread().enable_all().worker_threads(2).build().unwrap();
    rt.block_on(async {
        let base = std::env::var("VERIF_DATA_DIR").unwrap_or_else(|_| "/var/cache/discret-verif/data".to_string());
        let path: std::path::PathBuf = format!("{}/c02edgedel/{}", base, crate::security::base64_encode(&crate::security::random32()[0..6])).into();
        std::fs::create_dir_all(&path).unwrap();
        let (app, own_key, _) = GraphDatabaseService::start(
            "verif c02 edge deletions",
            "ns { E{ name:String, refs:[ns.E] } }",
            &crate::security::random32(),
            &crate::security::random32(),
            path,
            &crate::configuration::Configuration::default(),
            crate::event_service::EventService::new(),
        )
        .await
        .unwrap();
        let mut keys = Keys::new();
        let own = crate::security::base64_encode(&own_key);
        let member = crate::security::base64_encode(&keys.vk(if has_right { "K2" } else { "K3" }));
        let mk_room = |users: String| {
            let app = app.clone();
            let own = own.clone();
            async move {
                let mut p = Parameters::default();
                p.add("k", own).unwrap();
                p.add("a", users).unwrap();
                let r = app
                    .mutate_raw(
                        r#"mutate { sys.Room{ admin:[{ verif_key:$k }] authorisations:[{ name:"g" rights:[{ entity:"ns.E" mutate_self:true mutate_all:true }] users:[{ verif_key:$k },{ verif_key:$a }] }] } }"#,
                        Some(p),
                    )
                    .await
                    .unwrap();
                r.mutate_entities[0].node_to_mutate.id
            }
        };
        let room_a = mk_room(member).await;
        let room_b = mk_room(own.clone()).await;
        let src_room = if in_room { room_a } else { room_b };
        let mut p = Parameters::default();
        p.add("room", crate::security::base64_encode(&src_room)).unwrap();
        let target = app.mutate_raw(r#"mutate { ns.E{ room_id:$room name:"kept reference" } }"#, Some(p)).await.unwrap();
        let target_id = target.mutate_entities[0].node_to_mutate.id;
        let mut p = Parameters::default();
        p.add("room", crate::security::base64_encode(&src_room)).unwrap();
        p.add("t", crate::security::base64_encode(&target_id)).unwrap();
        let owner_row = app.mutate_raw(r#"mutate { ns.E{ room_id:$room name:"owner row" refs:[{ id:$t }] } }"#, Some(p)).await.unwrap();
        let edge = owner_row.mutate_entities[0].edge_insertions[0].clone();
        let before = app.query(r#"query { ns.E(name="owner row"){ name refs{ name } } }"#, None).await.unwrap();
        // the record is stamped with room A, where the remote author holds the all-rows right
        let entry = EdgeDeletionEntry::build(room_a, &edge, crate::date_utils::now(), keys.signing("K2"));
        let res = app.delete_edges(vec![entry]).await;
        let after = app.query(r#"query { ns.E(name="owner row"){ name refs{ name } } }"#, None).await.unwrap();
        json!({"status": "done", "result_ok": res.is_ok(), "reference_before": before.contains("kept reference"), "deleted": !after.contains("kept reference")})
    })
}

/// C11: through the API of a real database: a row is written and deleted; then a peer that has not seen the deletion announces it
/// (filter_existing_node) and, if it is requested, delivers it (add_nodes).  Is the row visible again ?
fn replay_deleted_row_announced(sc: &Value) -> Value {
    use crate::database::graph_database::GraphDatabaseService;
    use crate::database::node::{NodeIdentifier, NodeToInsert};
    use crate::database::query_language::parameter::{Parameters, ParametersAdd};
    let rt = tokio::runtime::Builder::new_multi_thread().enable_all().worker_threads(2).build().unwrap();
    rt.block_on(async {
        let base = std::env::var("VERIF_DATA_DIR").unwrap_or_else(|_| "/var/cache/discret-verif/data".to_string());
        let path: std::path::PathBuf = format!("{}/c11/{}", base, crate::security::base64_encode(&crate::security::random32()[0..6])).into();
        std::fs::create_dir_all(&path).unwrap();
        let (app, own_key, _) = GraphDatabaseService::start(
            "verif c11",
            "ns { E{ name:String } }",
            &crate::security::random32(),
            &crate::security::random32(),
            path,
            &crate::configuration::Configuration::default(),
            crate::event_service::EventService::new(),
        )
        .await
        .unwrap();
        let mut p = Parameters::default();
        p.add("k", crate::security::base64_encode(&own_key)).unwrap();
        let created = app
            .mutate_raw(
                r#"mutate { sys.Room{ admin:[{ verif_key:$k }] authorisations:[{ name:"g" rights:[{ entity:"ns.E" mutate_self:true mutate_all:true }] users:[{ verif_key:$k }] }] } }"#,
                Some(p),
            )
            .await
            .unwrap();
        let room_uid = created.mutate_entities[0].node_to_mutate.id;
        let room_id = crate::security::base64_encode(&room_uid);
        let mut p = Parameters::default();
        p.add("room", room_id.clone()).unwrap();
        let row = app.mutate_raw(r#"mutate { ns.E{ room_id:$room name:"kept by a peer" } }"#, Some(p)).await.unwrap();
        let row_uid = row.mutate_entities[0].node_to_mutate.id;
        // the signed row, as a peer that synchronised before the deletion holds it
        let mut rx = app.get_nodes(room_uid, vec![row_uid]).await;
        let mut copy: Option<Node> = None;
        while let Some(r) = rx.recv().await {
            for n in r.unwrap() {
                copy = Some(n);
            }
        }
        let mut copy = copy.unwrap();
        let visible = |json: String| json.contains("kept by a peer");
        let before = visible(app.query("query { ns.E{ name } }", None).await.unwrap());
        let mut p = Parameters::default();
        p.add("id", crate::security::base64_encode(&row_uid)).unwrap();
        app.delete("delete { ns.E{ $id } }", Some(p)).await.unwrap();
        let after_delete = visible(app.query("query { ns.E{ name } }", None).await.unwrap());
        // the peer's version: the deleted one, or a re-dated one signed through the signing service
        match sc["announced"].as_str().unwrap_or("same") {
            "older" => copy.mdate -= 1000,
            "newer" => copy.mdate += 1000,
            _ => {}
        }
        if sc["announced"].as_str().unwrap_or("same") != "same" {
            let (_k, sig) = app.sign(copy.hash().unwrap().as_bytes().to_vec()).await;
            copy._signature = sig;
        }
        let mut ids: HashSet<NodeIdentifier> = HashSet::new();
        ids.insert(NodeIdentifier { id: row_uid, mdate: copy.mdate, signature: copy._signature.clone() });
        let filtered: Vec<NodeToInsert> = app.filter_existing_node(ids).await.unwrap();
        let requested = filtered.iter().any(|n| n.id == row_uid);
        let mut rejected = 0;
        if requested {
            let mut to_insert = vec![];
            for mut nti in filtered {
                if nti.id == row_uid {
                    let mut n = copy.clone();
                    n._local_id = nti.old_local_id;
                    nti.node = Some(n);
                    to_insert.push(nti);
                }
            }
            rejected = app.add_nodes(room_uid, to_insert).await.unwrap().len();
        }
        let visible_after = visible(app.query("query { ns.E{ name } }", None).await.unwrap());
        json!({"status": "done", "visible_before": before, "visible_after_delete": after_delete, "requested": requested, "rejected_by_add_nodes": rejected, "visible_after": visible_after})
    })
}

/// C17 probe / replay: a row written on instance A is delivered to instance B the way synchronisation does it
/// (room definition, filter_existing_node, add_nodes); is it found by a full-text search on B ?
fn replay_search_synchronised_row(sc: &Value) -> Value {
    use crate::database::graph_database::GraphDatabaseService;
    use crate::database::node::{NodeIdentifier, NodeToInsert};
    use crate::database::query_language::parameter::{Parameters, ParametersAdd};
    let update_existing = sc["update_existing"].as_bool().unwrap_or(false);
    let rt = tokio::runtime::Builder::new_multi_thread().enable_all().worker_threads(2).build().unwrap();
    rt.block_on(async {
        let base = std::env::var("VERIF_DATA_DIR").unwrap_or_else(|_| "/var/cache/discret-verif/data".to_string());
        let tag = crate::security::base64_encode(&crate::security::random32()[0..6]);
        let start = |name: &'static str, tag: String, base: String| async move {
            let path: std::path::PathBuf = format!("{}/c17/{}/{}", base, tag, name).into();
            std::fs::create_dir_all(&path).unwrap();
            GraphDatabaseService::start("verif c17", "ns { E{ name:String } }", &crate::security::random32(), &crate::security::random32(), path,
                &crate::configuration::Configuration::default(), crate::event_service::EventService::new()).await.unwrap()
        };
        let (a, a_key, _) = start("a", tag.clone(), base.clone()).await;
        let (b, _b_key, _) = start("b", tag.clone(), base.clone()).await;
        let mut p = Parameters::default();
        p.add("k", crate::security::base64_encode(&a_key)).unwrap();
        let created = a
            .mutate_raw(r#"mutate { sys.Room{ admin:[{ verif_key:$k }] authorisations:[{ name:"g" rights:[{ entity:"ns.E" mutate_self:true mutate_all:true }] users:[{ verif_key:$k }] }] } }"#, Some(p))
            .await
            .unwrap();
        let room_uid = created.mutate_entities[0].node_to_mutate.id;
        let mut p = Parameters::default();
        p.add("room", crate::security::base64_encode(&room_uid)).unwrap();
        let row = a.mutate_raw(r#"mutate { ns.E{ room_id:$room name:"findable alpha text" } }"#, Some(p)).await.unwrap();
        let row_uid = row.mutate_entities[0].node_to_mutate.id;
        // B learns the room, then pulls the row
        let exported = a.get_room_node(room_uid).await.unwrap().unwrap();
        b.add_room_node(exported).await.unwrap();
        let deliver = |a: GraphDatabaseService, b: GraphDatabaseService| async move {
            let mut rx = a.get_nodes(room_uid, vec![row_uid]).await;
            let mut copy: Option<Node> = None;
            while let Some(r) = rx.recv().await {
                for n in r.unwrap() {
                    copy = Some(n);
                }
            }
            let copy = copy.unwrap();
            let mut ids: HashSet<NodeIdentifier> = HashSet::new();
            ids.insert(NodeIdentifier { id: row_uid, mdate: copy.mdate, signature: copy._signature.clone() });
            let filtered: Vec<NodeToInsert> = b.filter_existing_node(ids).await.unwrap();
            let mut to_insert = vec![];
            for mut nti in filtered {
                let mut n = copy.clone();
                n._local_id = nti.old_local_id;
                nti.node = Some(n);
                to_insert.push(nti);
            }
            let n = to_insert.len();
            let rejected = b.add_nodes(room_uid, to_insert).await.unwrap().len();
            (n, rejected)
        };
        let (delivered, rejected) = deliver(a.clone(), b.clone()).await;
        let mut stale = false;
        if update_existing {
            // A rewrites the text; B receives the new version of a row it already holds
            tokio::time::sleep(std::time::Duration::from_millis(20)).await;
            let mut p = Parameters::default();
            p.add("id", crate::security::base64_encode(&row_uid)).unwrap();
            a.mutate_raw(r#"mutate { ns.E{ id:$id name:"rewritten beta words" } }"#, Some(p)).await.unwrap();
            let _ = deliver(a.clone(), b.clone()).await;
            stale = b.query(r#"query { ns.E(search("alpha")){ name } }"#, None).await.unwrap().contains("name");
        }
        let word = if update_existing { "beta" } else { "alpha" };
        let plain = b.query("query { ns.E{ name } }", None).await.unwrap();
        let found = b.query(&format!(r#"query {{ ns.E(search("{}")){{ name }} }}"#, word), None).await.unwrap();
        let found_on_a = a.query(&format!(r#"query {{ ns.E(search("{}")){{ name }} }}"#, word), None).await.unwrap();
        json!({"status": "done", "delivered": delivered, "rejected": rejected, "row_present_on_b": plain.contains(word), "search_finds_it_on_a": found_on_a.contains(word),
               "search_finds_it_on_b": found.contains(word), "old_text_still_matches_on_b": stale})
    })
}

/// C17 local part: create, rewrite, delete and create again through the public API; is every current word found and no past word matched ?
fn replay_search_local_history(_sc: &Value) -> Value {
    use crate::database::graph_database::GraphDatabaseService;
    use crate::database::query_language::parameter::{Parameters, ParametersAdd};
    let rt = tokio::runtime::Builder::new_multi_thread().enable_all().worker_threads(2).build().unwrap();
    rt.block_on(async {
        let base = std::env::var("VERIF_DATA_DIR").unwrap_or_else(|_| "/var/cache/discret-verif/data".to_string());
        let tag = crate::security::base64_encode(&crate::security::random32()[0..6]);
        let path: std::path::PathBuf = format!("{}/c17/{}/local", base, tag).into();
        std::fs::create_dir_all(&path).unwrap();
        let (a, a_key, _) = GraphDatabaseService::start("verif c17 local", "ns { E{ name:String, other:String nullable } }", &crate::security::random32(),
            &crate::security::random32(), path, &crate::configuration::Configuration::default(), crate::event_service::EventService::new()).await.unwrap();
        let mut p = Parameters::default();
        p.add("k", crate::security::base64_encode(&a_key)).unwrap();
        let created = a
            .mutate_raw(r#"mutate { sys.Room{ admin:[{ verif_key:$k }] authorisations:[{ name:"g" rights:[{ entity:"ns.E" mutate_self:true mutate_all:true }] users:[{ verif_key:$k }] }] } }"#, Some(p))
            .await
            .unwrap();
        let room_uid = created.mutate_entities[0].node_to_mutate.id;
        let finds = |a: GraphDatabaseService, word: &'static str| async move {
            a.query(&format!(r#"query {{ ns.E(search("{}")){{ name }} }}"#, word), None).await.unwrap().contains("name\":")
        };
        let mut problems: Vec<String> = vec![];
        let mut p = Parameters::default();
        p.add("room", crate::security::base64_encode(&room_uid)).unwrap();
        let row = a.mutate_raw(r#"mutate { ns.E{ room_id:$room name:"findable alpha text" other:"gamma side" } }"#, Some(p)).await.unwrap();
        let row_uid = row.mutate_entities[0].node_to_mutate.id;
        if !finds(a.clone(), "alpha").await { problems.push("created text not found".into()); }
        if !finds(a.clone(), "gamma").await { problems.push("created second field not found".into()); }
        let mut p = Parameters::default();
        p.add("id", crate::security::base64_encode(&row_uid)).unwrap();
        a.mutate_raw(r#"mutate { ns.E{ id:$id name:"rewritten beta words" } }"#, Some(p)).await.unwrap();
        if finds(a.clone(), "alpha").await { problems.push("old text still matches after the first rewrite".into()); }
        if !finds(a.clone(), "beta").await { problems.push("rewritten text not found".into()); }
        if !finds(a.clone(), "gamma").await { problems.push("untouched field lost by the first rewrite".into()); }
        let mut p = Parameters::default();
        p.add("id", crate::security::base64_encode(&row_uid)).unwrap();
        a.mutate_raw(r#"mutate { ns.E{ id:$id other:null } }"#, Some(p)).await.unwrap();
        if finds(a.clone(), "gamma").await { problems.push("removed field still matches".into()); }
        if !finds(a.clone(), "beta").await { problems.push("kept text lost when another field was removed".into()); }
        let mut p = Parameters::default();
        p.add("id", crate::security::base64_encode(&row_uid)).unwrap();
        a.mutate_raw(r#"mutate { ns.E{ id:$id name:"third delta version" } }"#, Some(p)).await.unwrap();
        if finds(a.clone(), "beta").await { problems.push("old text still matches after the second rewrite".into()); }
        if !finds(a.clone(), "delta").await { problems.push("second rewrite not found".into()); }
        let mut p = Parameters::default();
        p.add("id", crate::security::base64_encode(&row_uid)).unwrap();
        a.delete(r#"delete { ns.E{ $id } }"#, Some(p)).await.unwrap();
        if finds(a.clone(), "delta").await { problems.push("deleted row still matches".into()); }
        let mut p = Parameters::default();
        p.add("room", crate::security::base64_encode(&room_uid)).unwrap();
        a.mutate_raw(r#"mutate { ns.E{ room_id:$room name:"fresh epsilon row" } }"#, Some(p)).await.unwrap();
        // deletions do not touch the index (Node::delete): observed on the unchanged tree, reported apart, not part of the write-path verdict
        let slot_reuse_stale = finds(a.clone(), "delta").await;
        if !finds(a.clone(), "epsilon").await { problems.push("row created after a deletion not found".into()); }
        json!({"status": "done", "index_consistent": problems.is_empty(), "problems": problems, "stale_match_after_slot_reuse": slot_reuse_stale})
    })
}

/// C18: the RoomNodeWrite arm of the real process_message with a real EventService subscriber, a real writer handle and a real reply channel
fn replay_room_node_write_event(sc: &Value) -> Value {
    let rt = tokio::runtime::Builder::new_multi_thread().enable_all().worker_threads(2).build().unwrap();
    rt.block_on(async {
        let mut keys = Keys::new();
        let rn = c07_room_node(sc, &mut keys);
        let expected = match rn.parse() {
            Ok(r) => r,
            Err(e) => return json!({"status": "precondition", "detail": format!("{}", e)}),
        };
        let rid = rn.node.id;
        let base = std::env::var("VERIF_DATA_DIR").unwrap_or_else(|_| "/var/cache/discret-verif/data".to_string());
        let dir: std::path::PathBuf = format!("{}/c18", base).into();
        std::fs::create_dir_all(&dir).unwrap();
        let path = dir.join(format!("{}.db", crate::security::base64_encode(&crate::security::random32()[0..6])));
        let writer = crate::database::sqlite_database::BufferedDatabaseWriter::start(10, &path, &crate::security::random32(), 1024, false).unwrap();
        let events = crate::event_service::EventService::new();
        let mut sub = events.subcribe().await;
        let mut auth = RoomAuthorisations { signing_key: Ed25519SigningKey::create_from(&crate::security::random32()), rooms: HashMap::new(), max_node_size: 1 << 20 };
        if sc["known"].as_bool().unwrap_or(false) {
            auth.rooms.insert(rid, Room::default());
        }
        let (reply, rx) = tokio::sync::oneshot::channel::<Result<()>>();
        let (self_sender, _self_rx) = mpsc::channel::<AuthorisationMessage>(4);
        let res: Result<()> = if sc["result"].as_str().unwrap() == "Ok" { Ok(()) } else { Err(Error::DatabaseWrite("verif".to_string())) };
        let msg = AuthorisationMessage::RoomNodeWrite(res, RoomNodeWriteQuery { room: rn, reply });
        AuthorisationService::process_message(msg, &mut auth, &writer, &events, &self_sender).await;
        // no wall clock: process_message hands its events to the EventService inline, the service forwards its queue in order,
        // so everything announced by the message has been received once a marker event sent afterwards arrives
        events.notify(crate::event_service::EventServiceMessage::PendingHardware()).await;
        let mut announced = 0;
        let mut announced_is_stored = true;
        loop {
            match tokio::time::timeout(std::time::Duration::from_secs(60), sub.recv()).await {
                Ok(Ok(crate::event_service::Event::RoomModified(r))) => {
                    announced += 1;
                    announced_is_stored &= format!("{:?}", r) == format!("{:?}", expected);
                }
                Ok(Ok(crate::event_service::Event::PendingHardware())) => break,
                Ok(Ok(_)) => {}
                _ => return json!({"status": "stuck", "detail": "the marker event never arrived"}),
            }
        }
        let registered = auth.rooms.get(&rid).map(|r| format!("{:?}", r) == format!("{:?}", expected)).unwrap_or(false);
        let ack = match rx.await {
            Ok(Ok(())) => "Ok",
            Ok(Err(_)) => "Err",
            Err(_) => "none",
        };
        json!({"status": "done", "announced": announced, "announced_is_stored": announced_is_stored, "registered_is_stored": registered, "acknowledged": ack})
    })
}

/// C03: Node::filter_existing on an in-memory SQLite holding the stored version; signatures are the 8 big-endian bytes
/// of the model's rank, so that the byte order is the rank order
fn replay_version_selection(sc: &Value) -> Value {
    use crate::database::node::NodeIdentifier;
    let ver = |name: &str| -> (i64, Vec<u8>) {
        let v = &sc["versions"][name];
        (i(&v["mdate"]), v["sig_rank"].as_u64().unwrap().to_be_bytes().to_vec())
    };
    let id = uid("N1");
    let other = uid("N2");
    let mut requested = vec![];
    for run in sc["runs"].as_array().unwrap() {
        let conn = rusqlite::Connection::open_in_memory().unwrap();
        Node::create_tables(&conn).unwrap();
        let (sm, ss) = ver(run["stored"].as_str().unwrap());
        let (am, asig) = ver(run["announced"].as_str().unwrap());
        let mut stored = Node {
            id,
            room_id: Some(uid("R1")),
            cdate: 0,
            mdate: sm,
            _entity: "E".to_string(),
            _json: Some("{}".to_string()),
            _binary: None,
            verifying_key: vec![1, 2, 3],
            _signature: ss,
            _local_id: None,
        };
        stored.write(&conn, false, &None, &None).unwrap();
        let mut set: HashSet<NodeIdentifier> = HashSet::new();
        set.insert(NodeIdentifier { id, mdate: am, signature: asig });
        if sc["extra"].as_bool().unwrap_or(false) {
            set.insert(NodeIdentifier { id: other, mdate: 5, signature: vec![7] });
        }
        let res = Node::filter_existing(&mut set, &conn).unwrap();
        requested.push(res.iter().any(|n| n.id == id));
    }
    json!({"status": "done", "requested": requested})
}

fn replay_data_model_update(sc: &Value) -> Value {
    use crate::database::query_language::data_model_parser::DataModel;
    let old_text = sc["old_text"].as_str().unwrap();
    let new_text = sc["new_text"].as_str().unwrap();
    let ids = |v: &Value| -> String {
        // canonical rendering of every storage id
        let mut out: Vec<String> = vec![];
        if let Some(nss) = v["namespaces"].as_object() {
            for (_, ents) in nss {
                for (en, e) in ents.as_object().unwrap() {
                    out.push(format!("{}={}", en, e["short_name"]));
                    for (fname, f) in e["fields"].as_object().unwrap() {
                        out.push(format!("{}.{}={}:{}", en, fname, f["short_name"], f["field_type"]));
                    }
                }
            }
        }
        out.sort();
        out.join(";")
    };
    let mut accepted_any = false;
    let mut refused_any = false;
    let mut refused_changed_model = false;
    let mut assignments: HashSet<String> = HashSet::new();
    let mut reapply_refused = false;
    let mut reapply_changes = false;
    let mut id_changed = false;
    let mut id_collision = false;
    let mut next_refused = false;
    let mut attributes_differ = false;
    // (deprecated, nullable, default) of every entity and field, by name
    let attrs = |v: &Value| -> String {
        let mut out: Vec<String> = vec![];
        if let Some(nss) = v["namespaces"].as_object() {
            for (_, ents) in nss {
                for (en, e) in ents.as_object().unwrap() {
                    out.push(format!("{}:{}", en, e["deprecated"]));
                    for (fname, f) in e["fields"].as_object().unwrap() {
                        out.push(format!("{}.{}:{}:{}:{}", en, fname, f["deprecated"], f["nullable"], f["default_value"]));
                    }
                }
            }
        }
        out.sort();
        out.join(";")
    };
    let collides = |v: &Value| -> bool {
        let mut seen: HashSet<String> = HashSet::new();
        if let Some(nss) = v["namespaces"].as_object() {
            for (ns, ents) in nss {
                for (_, e) in ents.as_object().unwrap() {
                    if !seen.insert(format!("{}/{}", ns, e["short_name"])) {
                        return true;
                    }
                    let mut fs: HashSet<String> = HashSet::new();
                    for (_, f) in e["fields"].as_object().unwrap() {
                        if !fs.insert(format!("{}", f["short_name"])) {
                            return true;
                        }
                    }
                }
            }
        }
        false
    };
    let mut old_err = None;
    for _ in 0..60 {
        let mut dm = DataModel::new();
        if let Err(e) = dm.update(old_text) {
            old_err = Some(format!("{}", e));
            break;
        }
        let before = serde_json::to_value(&dm).unwrap();
        let before_ids = ids(&before);
        match dm.update(new_text) {
            Ok(()) => {
                accepted_any = true;
                let after = serde_json::to_value(&dm).unwrap();
                let after_ids = ids(&after);
                for item in before_ids.split(';') {
                    if !item.is_empty() && !after_ids.split(';').any(|x| x == item) {
                        id_changed = true;
                    }
                }
                assignments.insert(after_ids.clone());
                if collides(&after) {
                    id_collision = true;
                }
                // a peer that starts from the accepted version
                let mut fresh = DataModel::new();
                if fresh.update(new_text).is_ok() && attrs(&serde_json::to_value(&fresh).unwrap()) != attrs(&after) {
                    attributes_differ = true;
                }
                if let Some(next_text) = sc["next_text"].as_str() {
                    let text = serde_json::to_string(&dm).unwrap();
                    let mut dm3: DataModel = serde_json::from_str(&text).unwrap();
                    match dm3.update(next_text) {
                        Ok(()) => {
                            let nv = serde_json::to_value(&dm3).unwrap();
                            let next_ids = ids(&nv);
                            for item in after_ids.split(';') {
                                if !item.is_empty() && !next_ids.split(';').any(|x| x == item) {
                                    id_changed = true;
                                }
                            }
                            if collides(&nv) {
                                id_collision = true;
                            }
                        }
                        Err(_) => next_refused = true,
                    }
                }
                // restart on what was persisted, with the same model text
                let text = serde_json::to_string(&dm).unwrap();
                let mut dm2: DataModel = serde_json::from_str(&text).unwrap();
                match dm2.update(new_text) {
                    Ok(()) => {
                        if ids(&serde_json::to_value(&dm2).unwrap()) != after_ids {
                            reapply_changes = true;
                        }
                    }
                    Err(_) => reapply_refused = true,
                }
            }
            Err(_) => {
                refused_any = true;
                let after = serde_json::to_value(&dm).unwrap();
                if after != before {
                    refused_changed_model = true;
                }
            }
        }
    }
    if let Some(e) = old_err {
        return json!({"status": "precondition", "detail": e});
    }
    json!({"status": "done", "accepted": accepted_any && !refused_any, "mixed_verdicts": accepted_any && refused_any,
           "refused_changed_model": refused_changed_model, "distinct_assignments": assignments.len() > 1,
           "reapply_refused": reapply_refused, "reapply_changes": reapply_changes, "id_changed": id_changed, "id_collision": id_collision,
           "next_refused": next_refused, "attributes_differ": attributes_differ})
}

fn replay_bytes_decoder(sc: &Value) -> Value {
    let bytes: Vec<u8> = sc["bytes"].as_array().unwrap().iter().map(|x| x.as_u64().unwrap() as u8).collect();
    match sc["fn"].as_str().unwrap() {
        "import_verifying_key" => {
            let r = crate::security::import_verifying_key(&bytes);
            json!({"status": "done", "result": if r.is_ok() {"Ok"} else {"Err"}})
        }
        "uid_from" => {
            let r = crate::security::uid_from(bytes);
            json!({"status": "done", "result": if r.is_ok() {"Ok"} else {"Err"}})
        }
        "verify_signature" => {
            use crate::security::VerifyingKey;
            let mut keys = Keys::new();
            let vk = crate::security::import_verifying_key(&keys.vk("K1")).unwrap();
            let msg: Vec<u8> = sc["msg"].as_array().map(|a| a.iter().map(|x| x.as_u64().unwrap() as u8).collect()).unwrap_or_default();
            let r = vk.verify(&msg, &bytes);
            json!({"status": "done", "result": if r.is_ok() {"Ok"} else {"Err"}})
        }
        other => json!({"status": "unknown-fn", "fn": other}),
    }
}

// ---- C06: signature transplant between two rows
fn jbytes(v: &Value) -> Vec<u8> {
    v.as_array().map(|a| a.iter().map(|x| x.as_u64().unwrap() as u8).collect()).unwrap_or_default()
}
fn juid(v: &Value) -> Uid {
    let b = jbytes(v);
    let mut u = [0u8; 16];
    u.copy_from_slice(&b[..16]);
    u
}
fn jtext(v: &Value) -> String {
    String::from_utf8(jbytes(v)).unwrap()
}
fn jopt<T>(v: &Value, f: impl Fn(&Value) -> T) -> Option<T> {
    if v.is_null() { None } else { Some(f(v)) }
}

enum AnyRow {
    N(Node),
    E(Edge),
    NT(NodeDeletionEntry),
    ET(EdgeDeletionEntry),
}

fn c06_row(v: &Value, vk: &Vec<u8>) -> AnyRow {
    match v["kind"].as_str().unwrap() {
        "node" => AnyRow::N(Node {
            id: juid(&v["id"]),
            room_id: jopt(&v["room_id"], juid),
            cdate: i(&v["cdate"]),
            mdate: i(&v["mdate"]),
            _entity: jtext(&v["_entity"]),
            _json: jopt(&v["_json"], jtext),
            _binary: jopt(&v["_binary"], jbytes),
            verifying_key: vk.clone(),
            _signature: vec![],
            _local_id: None,
        }),
        "edge" => AnyRow::E(Edge {
            src: juid(&v["src"]),
            src_entity: jtext(&v["src_entity"]),
            label: jtext(&v["label"]),
            dest: juid(&v["dest"]),
            cdate: i(&v["cdate"]),
            verifying_key: vk.clone(),
            signature: vec![],
        }),
        "node_tombstone" => AnyRow::NT(NodeDeletionEntry {
            room_id: juid(&v["room_id"]),
            id: juid(&v["id"]),
            entity: jtext(&v["entity"]),
            mdate: i(&v["mdate"]),
            deletion_date: i(&v["deletion_date"]),
            verifying_key: vk.clone(),
            signature: vec![],
            entity_name: None,
        }),
        _ => AnyRow::ET(EdgeDeletionEntry {
            room_id: juid(&v["room_id"]),
            src: juid(&v["src"]),
            src_entity: jtext(&v["src_entity"]),
            dest: juid(&v["dest"]),
            label: jtext(&v["label"]),
            cdate: i(&v["cdate"]),
            deletion_date: i(&v["deletion_date"]),
            verifying_key: vk.clone(),
            signature: vec![],
            entity_name: None,
        }),
    }
}

fn c06_digest(r: &AnyRow) -> Vec<u8> {
    // the digest exactly as the real sign()/verify() code computes it
    match r {
        AnyRow::N(n) => n.hash().unwrap().as_bytes().to_vec(),
        AnyRow::E(e) => crate::database::edge::verif_hook::edge_hash(e),
        AnyRow::NT(t) => {
            let mut h = blake3::Hasher::new();
            h.update(&t.room_id);
            h.update(&t.id);
            h.update(&t.mdate.to_le_bytes());
            h.update(t.entity.as_bytes());
            h.update(&t.deletion_date.to_le_bytes());
            h.update(&t.verifying_key);
            h.finalize().as_bytes().to_vec()
        }
        AnyRow::ET(t) => {
            let mut h = blake3::Hasher::new();
            h.update(&t.room_id);
            h.update(&t.src);
            h.update(t.src_entity.as_bytes());
            h.update(t.label.as_bytes());
            h.update(&t.dest);
            h.update(&t.cdate.to_le_bytes());
            h.update(&t.deletion_date.to_le_bytes());
            h.update(&t.verifying_key);
            h.finalize().as_bytes().to_vec()
        }
    }
}

fn replay_digest_pair(sc: &Value) -> Value {
    let mut keys = Keys::new();
    let vk = keys.vk("K1");
    let a = c06_row(&sc["a"], &vk);
    let mut b = c06_row(&sc["b"], &vk);
    // sign row a with the REAL code path of its kind
    let sig: Vec<u8> = match a {
        AnyRow::N(mut n) => {
            // Node::sign also demands a JSON object; the digest is what matters here
            let h = n.hash().unwrap();
            n._signature = keys.signing("K1").sign(h.as_bytes());
            n._signature.clone()
        }
        AnyRow::E(mut e) => {
            e.sign(keys.signing("K1")).unwrap();
            e.signature.clone()
        }
        AnyRow::NT(t) => {
            let node = Node {
                id: t.id,
                room_id: None,
                cdate: 0,
                mdate: t.mdate,
                _entity: t.entity.clone(),
                _json: None,
                _binary: None,
                verifying_key: vec![],
                _signature: vec![],
                _local_id: None,
            };
            NodeDeletionEntry::sign(&t.room_id, &node, t.deletion_date, &vk, keys.signing("K1"))
        }
        AnyRow::ET(t) => {
            let edge = Edge {
                src: t.src,
                src_entity: t.src_entity.clone(),
                label: t.label.clone(),
                dest: t.dest,
                cdate: t.cdate,
                verifying_key: vec![],
                signature: vec![],
            };
            EdgeDeletionEntry::sign(&t.room_id, &edge, t.deletion_date, &vk, keys.signing("K1"))
        }
    };
    let a2 = c06_row(&sc["a"], &vk);
    let same_digest = c06_digest(&a2) == c06_digest(&b);
    // transplant the signature onto row b and run the REAL verification of its kind
    let verdict = match &mut b {
        AnyRow::N(n) => {
            n._signature = sig.clone();
            let ok = n.verify().is_ok();
            // verify() also wants _json to be an object; fall back to the pure signature check on the digest
            if ok {
                true
            } else {
                let h = n.hash().unwrap();
                crate::security::import_verifying_key(&n.verifying_key).unwrap().verify(h.as_bytes(), &sig).is_ok()
            }
        }
        AnyRow::E(e) => {
            e.signature = sig.clone();
            e.verify().is_ok()
        }
        AnyRow::NT(t) => {
            t.signature = sig.clone();
            t.verify().is_ok()
        }
        AnyRow::ET(t) => {
            t.signature = sig.clone();
            t.verify().is_ok()
        }
    };
    json!({"status": "done", "transplant_verifies": verdict, "same_digest": same_digest, "rows_differ": sc["a"] != sc["b"]})
}

fn replay_sign_oracle(sc: &Value) -> Value {
    // a row the local user never authored; its digest is submitted as the "challenge"
    let mut keys = Keys::new();
    let vk = keys.vk("K1");
    let mut forged = Node {
        id: uid("forged"),
        room_id: Some(uid("room")),
        cdate: 1,
        mdate: 2,
        _entity: "1.0".to_string(),
        _json: Some("{}".to_string()),
        _binary: None,
        verifying_key: vk.clone(),
        _signature: vec![],
        _local_id: None,
    };
    let challenge = forged.hash().unwrap().as_bytes().to_vec();
    // what AuthorisationMessage::Sign does with the caller's bytes
    let ra = RoomAuthorisations {
        signing_key: Ed25519SigningKey::create_from(blake3::hash("K1".as_bytes()).as_bytes()),
        rooms: HashMap::new(),
        max_node_size: 1 << 20,
    };
    let rt = tokio::runtime::Builder::new_current_thread().enable_all().build().unwrap();
    let sig = rt.block_on(async {
        let (reply, rx) = tokio::sync::oneshot::channel();
        let mut ra = ra;
        // only the Sign arm is exercised: the other handles are never touched on that path
        let auth_sig = ra.signing_key.sign(&challenge);
        let _ = reply.send((ra.signing_key.export_verifying_key(), auth_sig));
        rx.await.unwrap().1
    });
    forged._signature = sig;
    json!({"status": "done", "signature_verifies_as_row": forged.verify().is_ok()})
}

// ---- C08
fn replay_rooms_for_peer(sc: &Value) -> Value {
    let mut keys = Keys::new();
    let ra = match room_auth(sc, &mut keys) {
        Ok(r) => r,
        Err(e) => return json!({"status": "precondition", "detail": e}),
    };
    let key = keys.vk(sc["key"].as_str().unwrap());
    let set = ra.rooms_for_peer(&key, i(&sc["date"]));
    let mut names: Vec<String> = vec![];
    for r in sc["rooms"].as_array().unwrap() {
        let n = r["id"].as_str().unwrap();
        if set.contains(&uid(n)) {
            names.push(n.to_string());
        }
    }
    names.sort();
    json!({"status": "done", "rooms": names, "count": set.len()})
}

fn replay_local_event_admission(sc: &Value) -> Value {
    let mut keys = Keys::new();
    let room = match build_room(&sc["rooms"][0], &mut keys) {
        Ok(r) => r,
        Err(e) => return json!({"status": "precondition", "detail": e}),
    };
    let kname = sc["key"].as_str().unwrap();
    let key = if kname.is_empty() { vec![] } else { keys.vk(kname) };
    let rid = room.id;
    let admitted = crate::synchronisation::peer_inbound_service::verif_hook::replay_room_definition_changed(room, key);
    json!({"status": "done", "admitted": admitted.contains(&rid)})
}

fn replay_room_revocation(sc: &Value) -> Value {
    let mut keys = Keys::new();
    let room = match build_room(&sc["rooms"][0], &mut keys) {
        Ok(r) => r,
        Err(e) => return json!({"status": "precondition", "detail": e}),
    };
    let kname = sc["key"].as_str().unwrap();
    let key = if kname.is_empty() { vec![] } else { keys.vk(kname) };
    crate::synchronisation::peer_inbound_service::verif_hook::replay_room_revocation(room, key)
}

fn replay_inbound_query(sc: &Value) -> Value {
    use crate::synchronisation::peer_outbound_service::{InboundQueryService, RemotePeerHandle};
    use crate::synchronisation::{Answer, Query, QueryProtocol};
    use std::sync::atomic::AtomicBool;
    use std::sync::Arc;
    let rt = tokio::runtime::Builder::new_multi_thread().enable_all().worker_threads(2).build().unwrap();
    rt.block_on(async {
        let base = std::env::var("VERIF_DATA_DIR").unwrap_or_else(|_| "/var/cache/discret-verif/data".to_string());
        let path: std::path::PathBuf = format!("{}/inbound", base).into();
        std::fs::create_dir_all(&path).unwrap();
        let (db, own_key, _) = crate::database::graph_database::GraphDatabaseService::start(
            "verif inbound",
            "ns { Person{ name:String } }",
            &crate::security::random32(),
            &crate::security::random32(),
            path,
            &crate::configuration::Configuration::default(),
            crate::event_service::EventService::new(),
        )
        .await
        .unwrap();
        let mut keys = Keys::new();
        let (reply, mut rx) = tokio::sync::mpsc::channel::<Answer>(16);
        let mut allowed = HashSet::new();
        for r in sc["allowed"].as_array().unwrap() {
            allowed.insert(uid(r.as_str().unwrap()));
        }
        let mut peer = RemotePeerHandle { allowed_room: allowed, db, verifying_key: own_key.clone(), reply };
        let room = uid(sc["room"].as_str().unwrap());
        let query = match sc["query"].as_str().unwrap() {
            "RoomList" => Query::RoomList,
            "RoomDefinition" => Query::RoomDefinition(room),
            "RoomNode" => Query::RoomNode(room),
            "RoomLog" => Query::RoomLog(room),
            "RoomLogAt" => Query::RoomLogAt(room, 0),
            "EdgeDeletionLog" => Query::EdgeDeletionLog(room, "1.0".to_string(), 0),
            "NodeDeletionLog" => Query::NodeDeletionLog(room, "1.0".to_string(), 0),
            "RoomDailyNodes" => Query::RoomDailyNodes(room, "1.0".to_string(), 0),
            "Nodes" => Query::Nodes(room, vec![uid("n")]),
            "Edges" => Query::Edges(room, vec![(uid("n"), 0)]),
            "PeersForRoom" => Query::PeersForRoom(room),
            _ => return json!({"status": "skipped"}),
        };
        let bk = sc["bound_key"].as_str().unwrap();
        let bound = if bk.is_empty() { vec![] } else if bk.starts_with("K1") { own_key.clone() } else { keys.vk(bk) };
        let vk = Arc::new(tokio::sync::Mutex::new(bound));
        let ready = Arc::new(AtomicBool::new(sc["conn_ready"].as_bool().unwrap_or(false)));
        let fp = crate::security::HardwareFingerprint { id: uid("hw"), name: "hw".to_string() };
        let res = InboundQueryService::process_inbound(QueryProtocol { id: 7, query }, &mut peer, &vk, &ready, &fp).await;
        let mut answers = vec![];
        while let Ok(a) = rx.try_recv() {
            answers.push(a);
        }
        let refused = answers.first().map(|a| {
            !a.success && matches!(bincode::deserialize::<crate::synchronisation::Error>(&a.serialized), Ok(crate::synchronisation::Error::Authorisation(_)))
        }).unwrap_or(false);
        let data_served = answers.iter().any(|a| a.success);
        json!({"status": "done", "ok": res.is_ok(), "answered": !answers.is_empty(), "authorisation_refused": refused, "data_served": data_served, "answers": answers.len()})
    })
}

// ---- C10: the three construction paths through the real API (two database instances)
fn replay_room_three_paths(sc: &Value) -> Value {
    use crate::database::graph_database::GraphDatabaseService;
    use crate::database::query_language::parameter::{Parameters, ParametersAdd};
    let rt = tokio::runtime::Builder::new_multi_thread().enable_all().worker_threads(2).build().unwrap();
    rt.block_on(async {
        let base = std::env::var("VERIF_DATA_DIR").unwrap_or_else(|_| "/var/cache/discret-verif/data".to_string());
        let tag = format!("{}", crate::date_utils::now());
        let path_a: std::path::PathBuf = format!("{}/c10/{}/a", base, tag).into();
        let path_b: std::path::PathBuf = format!("{}/c10/{}/b", base, tag).into();
        std::fs::create_dir_all(&path_a).unwrap();
        std::fs::create_dir_all(&path_b).unwrap();
        let model = "ns { E{ name:String } }";
        let secret = crate::security::random32();
        let pk = crate::security::random32();
        let start = |p: std::path::PathBuf, secret: [u8; 32], pk: [u8; 32]| async move {
            GraphDatabaseService::start("verif c10", model, &secret, &pk, p, &crate::configuration::Configuration::default(), crate::event_service::EventService::new()).await
        };
        let (app, own_key, _) = start(path_a.clone(), secret, pk).await.unwrap();
        // every key of the scenario is a generated key, except K1 = the local user (the admin who authors every entry)
        let mut keys = Keys::new();
        let kb64 = |keys: &mut Keys, name: &str, own: &Vec<u8>| -> String {
            if name.starts_with("K1") { crate::security::base64_encode(own) } else { crate::security::base64_encode(&keys.vk(name)) }
        };
        let room = &sc["room"];
        let g = &room["groups"][0];
        // live path: the entries are created one mutation after the other, in the order of the history
        let mut p = Parameters::default();
        p.add("k", kb64(&mut keys, room["admins"][0][0].as_str().unwrap(), &own_key)).unwrap();
        let created = app
            .mutate_raw(r#"mutate { sys.Room{ admin:[{ verif_key:$k }] authorisations:[{ name:"g" }] } }"#, Some(p))
            .await
            .unwrap();
        let room_id = crate::security::base64_encode(&created.mutate_entities[0].node_to_mutate.id);
        let room_uid = created.mutate_entities[0].node_to_mutate.id;
        let auth_id = crate::security::base64_encode(&created.mutate_entities[0].sub_nodes.get("authorisations").unwrap()[0].node_to_mutate.id);
        let mut live_errors: Vec<String> = vec![];
        let pause = || std::thread::sleep(std::time::Duration::from_millis(3));
        for a in room["admins"].as_array().unwrap().iter().skip(1) {
            pause();
            let mut p = Parameters::default();
            p.add("rid", room_id.clone()).unwrap();
            p.add("k", kb64(&mut keys, a[0].as_str().unwrap(), &own_key)).unwrap();
            p.add("en", a[2].as_bool().unwrap()).unwrap();
            if let Err(e) = app.mutate_raw(r#"mutate { sys.Room{ id:$rid admin:[{ verif_key:$k enabled:$en }] } }"#, Some(p)).await {
                live_errors.push(format!("{}", e));
            }
        }
        for (field, list) in [("users", &g["users"]), ("user_admin", &g["user_admins"])] {
            for a in list.as_array().unwrap() {
                pause();
                let mut p = Parameters::default();
                p.add("rid", room_id.clone()).unwrap();
                p.add("aid", auth_id.clone()).unwrap();
                p.add("k", kb64(&mut keys, a[0].as_str().unwrap(), &own_key)).unwrap();
                p.add("en", a[2].as_bool().unwrap()).unwrap();
                let q = format!("mutate {{ sys.Room{{ id:$rid authorisations:[{{ id:$aid {}:[{{ verif_key:$k enabled:$en }}] }}] }} }}", field);
                if let Err(e) = app.mutate_raw(&q, Some(p)).await {
                    live_errors.push(format!("{}", e));
                }
            }
        }
        for r in g["rights"].as_array().unwrap() {
            pause();
            let mut p = Parameters::default();
            p.add("rid", room_id.clone()).unwrap();
            p.add("aid", auth_id.clone()).unwrap();
            p.add("ent", r[0].as_str().unwrap().to_string()).unwrap();
            p.add("ms", r[2].as_bool().unwrap()).unwrap();
            p.add("ma", r[3].as_bool().unwrap()).unwrap();
            if let Err(e) = app
                .mutate_raw("mutate { sys.Room{ id:$rid authorisations:[{ id:$aid rights:[{ entity:$ent mutate_self:$ms mutate_all:$ma }] }] } }", Some(p))
                .await
            {
                live_errors.push(format!("{}", e));
            }
        }
        if !live_errors.is_empty() {
            return json!({"status": "precondition", "detail": live_errors});
        }
        // a probe decision on the live instance: can the local user write the queried entity in that room right now
        let probe = |app: GraphDatabaseService, room_id: String, ent: String| async move {
            if ent != "E" {
                return None;
            }
            let mut p = Parameters::default();
            p.add("rid", room_id).unwrap();
            Some(app.mutate_raw(r#"mutate { ns.E{ room_id:$rid name:"probe" } }"#, Some(p)).await.is_ok())
        };
        let ent = sc["query"]["entity"].as_str().unwrap_or("E").to_string();
        let live_decision = probe(app.clone(), room_id.clone(), ent.clone()).await;
        // membership of every key of the history, right now, as the running instance answers it
        let mut key_names: Vec<String> = vec![];
        for a in room["admins"].as_array().unwrap().iter().chain(g["users"].as_array().unwrap()).chain(g["user_admins"].as_array().unwrap()) {
            let n = a[0].as_str().unwrap().to_string();
            if !key_names.contains(&n) {
                key_names.push(n);
            }
        }
        let members = |app: GraphDatabaseService, names: Vec<String>, kb: Vec<Vec<u8>>| async move {
            let mut out = vec![];
            for (n, k) in names.iter().zip(kb) {
                let mut rx = app.get_rooms_for_peer(k).await;
                let mut member = false;
                while let Some(r) = rx.recv().await {
                    if let Ok(list) = r {
                        if list.contains(&room_uid) {
                            member = true;
                        }
                    }
                }
                out.push((n.clone(), member));
            }
            out
        };
        let key_bytes: Vec<Vec<u8>> = key_names.iter().map(|n| if n.starts_with("K1") { own_key.clone() } else { keys.vk(n) }).collect();
        let live_members = members(app.clone(), key_names.clone(), key_bytes.clone()).await;
        // export
        let exported = app.get_room_node(room_uid).await.unwrap();
        // what the importing peer decides (RoomNode::parse of the exported rows) against the live construction of the same history
        let mut import_differs = false;
        if let Some(node) = &exported {
            if let Ok(imported_room) = node.parse() {
                let mut live_keys = Keys::new();
                // the live construction: the add_* sequence with the keys of this run
                let mut live_room = Room { id: room_uid, ..Default::default() };
                let mut ok_live = true;
                let now = crate::date_utils::now();
                let mut n = 0i64;
                let mut kv = |name: &str, own: &Vec<u8>, ks: &mut Keys| if name.starts_with("K1") { own.clone() } else { ks.vk(name) };
                for a in room["admins"].as_array().unwrap() {
                    n += 1;
                    ok_live &= live_room.add_admin_user(User { verifying_key: kv(a[0].as_str().unwrap(), &own_key, &mut live_keys), date: n, enabled: a[2].as_bool().unwrap() }).is_ok();
                }
                let mut auth = Authorisation { id: uid("g"), ..Default::default() };
                for a in g["users"].as_array().unwrap() {
                    n += 1;
                    ok_live &= auth.add_user(User { verifying_key: kv(a[0].as_str().unwrap(), &own_key, &mut live_keys), date: n, enabled: a[2].as_bool().unwrap() }).is_ok();
                }
                for a in g["user_admins"].as_array().unwrap() {
                    n += 1;
                    ok_live &= auth.add_user_admin(User { verifying_key: kv(a[0].as_str().unwrap(), &own_key, &mut live_keys), date: n, enabled: a[2].as_bool().unwrap() }).is_ok();
                }
                for r in g["rights"].as_array().unwrap() {
                    n += 1;
                    ok_live &= auth.add_right(EntityRight::new(n, r[0].as_str().unwrap().to_string(), r[2].as_bool().unwrap(), r[3].as_bool().unwrap())).is_ok();
                }
                ok_live &= live_room.add_auth(auth).is_ok();
                if ok_live {
                    // keys of the imported room are those of the database run; compare on every key of the scenario, both rights, entity E and *
                    let mut names: Vec<String> = vec![];
                    for a in room["admins"].as_array().unwrap().iter().chain(g["users"].as_array().unwrap()).chain(g["user_admins"].as_array().unwrap()) {
                        names.push(a[0].as_str().unwrap().to_string());
                    }
                    for name in names {
                        let k_live = kv(&name, &own_key, &mut live_keys);
                        let k_imp = if name.starts_with("K1") { own_key.clone() } else { keys.vk(&name) };
                        for ent in ["E", "F"] {
                            for right in [RightType::MutateSelf, RightType::MutateAll] {
                                if live_room.can(&k_live, ent, i64::MAX, &right) != imported_room.can(&k_imp, ent, now + 86_400_000, &right) {
                                    import_differs = true;
                                }
                            }
                        }
                    }
                }
            }
        }
        drop(app);
        std::thread::sleep(std::time::Duration::from_millis(300));
        // reload: restart on the same files
        let reloaded = start(path_a.clone(), secret, pk).await;
        let reload_ok = reloaded.is_ok();
        let reload_err = reloaded.as_ref().err().map(|e| format!("{}", e));
        let mut reload_decision = None;
        let mut reload_members = live_members.clone();
        let mut history_differs = false;
        if let Ok((app2, _, _)) = reloaded {
            reload_decision = probe(app2.clone(), room_id.clone(), ent.clone()).await;
            reload_members = members(app2.clone(), key_names.clone(), key_bytes.clone()).await;
            // the room as the start-up code rebuilds it (LOAD_QUERY + load_json) against the room an importing peer builds from the exported rows:
            // both carry the real dates of the entries, so they can be compared at every moment of the history, not only now
            if let (Ok(json), Some(node)) = (app2.query(RoomAuthorisations::LOAD_QUERY, None).await, &exported) {
                let mut ra = RoomAuthorisations { signing_key: Ed25519SigningKey::create_from(&crate::security::random32()), rooms: HashMap::new(), max_node_size: 1 << 20 };
                if let (Ok(()), Ok(imported_room)) = (ra.load_json(&json), node.parse()) {
                    if let Some(reloaded_room) = ra.rooms.get(&room_uid) {
                        let mut dates: Vec<i64> = vec![];
                        for u in node.admin_nodes.iter() { dates.push(u.node.mdate); }
                        for a in node.auth_nodes.iter() {
                            for u in a.user_nodes.iter().chain(a.user_admin_nodes.iter()) { dates.push(u.node.mdate); }
                            for r in a.right_nodes.iter() { dates.push(r.node.mdate); }
                        }
                        let mut probes: Vec<i64> = vec![];
                        for d in dates { probes.push(d - 1); probes.push(d); probes.push(d + 1); }
                        for (_, k) in key_names.iter().zip(key_bytes.iter()) {
                            for d in &probes {
                                if reloaded_room.is_admin(k, *d) != imported_room.is_admin(k, *d) || reloaded_room.is_user_valid_at(k, *d) != imported_room.is_user_valid_at(k, *d) {
                                    history_differs = true;
                                }
                                for ent in ["E", "F"] {
                                    for right in [RightType::MutateSelf, RightType::MutateAll] {
                                        if reloaded_room.can(k, ent, *d, &right) != imported_room.can(k, ent, *d, &right) {
                                            history_differs = true;
                                        }
                                    }
                                }
                            }
                        }
                    }
                }
            }
        }
        // import on a fresh instance
        let (app_b, _, _) = start(path_b.clone(), crate::security::random32(), crate::security::random32()).await.unwrap();
        let import = match exported {
            Some(node) => app_b.add_room_node(node).await.map_err(|e| format!("{}", e)),
            None => Err("room not exported".to_string()),
        };
        let decisions_differ = match sc["path"].as_str().unwrap_or("reload") {
            "import" => import_differs || history_differs,
            _ => (match (live_decision, reload_decision) {
                (Some(a), Some(b)) => a != b,
                _ => false,
            }) || live_members != reload_members || history_differs,
        };
        json!({"status": "done", "reload_ok": reload_ok, "reload_error": reload_err, "import_ok": import.is_ok(), "import_error": import.err(),
               "live_decision": live_decision, "reload_decision": reload_decision, "import_differs": import_differs, "reload_and_import_differ_in_the_past": history_differs, "decisions_differ": decisions_differ,
               "live_members": format!("{:?}", live_members), "reload_members": format!("{:?}", reload_members)})
    })
}

// ---- C01: room mutation
fn user_json(keys: &mut Keys, k: &str, enabled: bool) -> String {
    format!("{{\"32\":\"{}\",\"33\":{}}}", crate::security::base64_encode(&keys.vk(k)), enabled)
}
fn leaf(keys: &mut Keys, name: &str, json: String, mdate: i64, author: &Vec<u8>) -> InsertEntity {
    let id = uid(&format!("{}{}", name, mdate));
    InsertEntity {
        name: name.to_string(),
        node_to_mutate: NodeToMutate {
            id,
            date: mdate,
            entity: "sys.UserAuth".to_string(),
            room_id: None,
            node: Some(Node { id, room_id: None, cdate: mdate, mdate, _entity: "0.2".to_string(), _json: Some(json), _binary: None,
                              verifying_key: author.clone(), _signature: vec![], _local_id: None }),
            node_fts_str: None,
            old_node: None,
            old_fts_str: None,
            enable_full_text: true,
        },
        edge_deletions: vec![],
        edge_deletions_log: vec![],
        edge_insertions: vec![],
        sub_nodes: HashMap::new(),
    }
}
fn replay_room_mutation(sc: &Value) -> Value {
    let mut keys = Keys::new();
    let ra = match room_auth(sc, &mut keys) {
        Ok(r) => r,
        Err(e) => return json!({"status": "precondition", "detail": e}),
    };
    let caller = keys.vk(sc["caller"].as_str().unwrap());
    let date = i(&sc["date"]);
    let update = sc["mode"].as_str().unwrap() == "update";
    let rid = if update { uid(sc["rooms"][0]["id"].as_str().unwrap()) } else { uid("a-new-room") };
    let mk_node = |id: Uid, ent: &str, mdate: i64, author: &Vec<u8>| Node { id, room_id: None, cdate: mdate, mdate, _entity: ent.to_string(), _json: Some("{}".to_string()),
        _binary: None, verifying_key: author.clone(), _signature: vec![], _local_id: None };
    let mut subs: HashMap<String, Vec<InsertEntity>> = HashMap::new();
    let mut admins = vec![];
    for a in sc["admins"].as_array().unwrap() {
        let j = user_json(&mut keys, a[0].as_str().unwrap(), b(&a[2]));
        admins.push(leaf(&mut keys, "admin", j, i(&a[1]), &caller));
    }
    if !admins.is_empty() {
        subs.insert("admin".to_string(), admins);
    }
    let mut auths = vec![];
    for (gname, g) in sc["groups"].as_object().unwrap() {
        let existing = sc["group"].as_str().unwrap() == "existing";
        let gid = uid(gname);
        let mut gsubs: HashMap<String, Vec<InsertEntity>> = HashMap::new();
        let mut v = vec![];
        for r in g["rights"].as_array().unwrap() {
            let j = format!("{{\"32\":\"{}\",\"33\":{},\"34\":{}}}", r[0].as_str().unwrap(), b(&r[2]), b(&r[3]));
            v.push(leaf(&mut keys, "rights", j, i(&r[1]), &caller));
        }
        if !v.is_empty() { gsubs.insert("rights".to_string(), v); }
        for (fld, key) in [("users", "users"), ("user_admin", "user_admins")] {
            let mut v = vec![];
            for a in g[key].as_array().unwrap() {
                let j = user_json(&mut keys, a[0].as_str().unwrap(), b(&a[2]));
                v.push(leaf(&mut keys, fld, j, i(&a[1]), &caller));
            }
            if !v.is_empty() { gsubs.insert(fld.to_string(), v); }
        }
        auths.push(InsertEntity {
            name: "authorisations".to_string(),
            node_to_mutate: NodeToMutate { id: gid, date, entity: "sys.Authorisation".to_string(), room_id: None, node: Some(mk_node(gid, "0.1", date, &caller)),
                node_fts_str: None, old_node: if existing { Some(mk_node(gid, "0.1", 0, &caller)) } else { None }, old_fts_str: None, enable_full_text: true },
            edge_deletions: vec![], edge_deletions_log: vec![], edge_insertions: vec![], sub_nodes: gsubs,
        });
    }
    if !auths.is_empty() {
        subs.insert("authorisations".to_string(), auths);
    }
    let mut ie = InsertEntity {
        name: "room".to_string(),
        node_to_mutate: NodeToMutate { id: rid, date, entity: "sys.Room".to_string(), room_id: None, node: Some(mk_node(rid, "0.0", date, &caller)), node_fts_str: None,
            old_node: if update { Some(mk_node(rid, "0.0", 0, &caller)) } else { None }, old_fts_str: None, enable_full_text: true },
        edge_deletions: vec![], edge_deletions_log: vec![], edge_insertions: vec![], sub_nodes: subs,
    };
    match ra.validate_room_mutation(&mut ie, &caller) {
        Ok(r) => json!({"status": "done", "result": "Ok", "room": r.is_some()}),
        Err(e) => json!({"status": "done", "result": "Err", "error": format!("{}", e)}),
    }
}

// ---- C07: room definitions received from a peer
fn c07_user_node(keys: &mut Keys, id: &str, key: &str, enabled: bool, mdate: i64, author: &str) -> crate::database::room_node::UserNode {
    let json = user_json(keys, key, enabled);
    crate::database::room_node::UserNode {
        node: Node { id: uid(id), room_id: None, cdate: mdate, mdate, _entity: "0.2".to_string(), _json: Some(json), _binary: None,
                     verifying_key: keys.vk(author), _signature: vec![], _local_id: None },
    }
}
fn c07_right_node(keys: &mut Keys, id: &str, ent: &str, ms: bool, ma: bool, mdate: i64, author: &str) -> crate::database::room_node::EntityRightNode {
    let json = format!("{{\"32\":\"{}\",\"33\":{},\"34\":{}}}", ent, ms, ma);
    crate::database::room_node::EntityRightNode {
        node: Node { id: uid(id), room_id: None, cdate: mdate, mdate, _entity: "0.3".to_string(), _json: Some(json), _binary: None,
                     verifying_key: keys.vk(author), _signature: vec![], _local_id: None },
    }
}
fn c07_edge(keys: &mut Keys, src: Uid, se: &str, label: &str, dest: Uid, cdate: i64, author: &str) -> Edge {
    Edge { src, src_entity: se.to_string(), label: label.to_string(), dest, cdate, verifying_key: keys.vk(author), signature: vec![] }
}
fn c07_room_node(sc: &Value, keys: &mut Keys) -> crate::database::room_node::RoomNode {
    use crate::database::room_node::{AuthorisationNode, RoomNode};
    let r = &sc["room"];
    let rid = uid(r["id"].as_str().unwrap());
    let admin = sc["admin"].as_str().unwrap_or("K1");
    let mut admin_edges = vec![];
    let mut admin_nodes = vec![];
    for (n, a) in r["admins"].as_array().unwrap().iter().enumerate() {
        let id = format!("adm{}", n);
        admin_nodes.push(c07_user_node(keys, &id, a[0].as_str().unwrap(), b(&a[2]), i(&a[1]), admin));
        admin_edges.push(c07_edge(keys, rid, "0.0", "32", uid(&id), i(&a[1]), admin));
    }
    let g = &r["groups"][0];
    let gid = uid(g["id"].as_str().unwrap());
    let gdate = i(&r["admins"][0][1]);
    let mut an = AuthorisationNode {
        node: Node { id: gid, room_id: None, cdate: gdate, mdate: gdate, _entity: "0.1".to_string(), _json: Some("{}".to_string()), _binary: None,
                     verifying_key: keys.vk(admin), _signature: vec![], _local_id: None },
        last_modified: gdate, right_edges: vec![], right_nodes: vec![], user_edges: vec![], user_nodes: vec![], user_admin_edges: vec![], user_admin_nodes: vec![],
        need_update: true,
    };
    for (n, x) in g["rights"].as_array().unwrap().iter().enumerate() {
        let id = format!("g0_right{}", n);
        an.right_nodes.push(c07_right_node(keys, &id, x[0].as_str().unwrap(), b(&x[2]), b(&x[3]), i(&x[1]), admin));
        an.right_edges.push(c07_edge(keys, gid, "0.1", "33", uid(&id), i(&x[1]), admin));
    }
    for (n, x) in g["users"].as_array().unwrap().iter().enumerate() {
        let id = format!("g0_user{}", n);
        an.user_nodes.push(c07_user_node(keys, &id, x[0].as_str().unwrap(), b(&x[2]), i(&x[1]), admin));
        an.user_edges.push(c07_edge(keys, gid, "0.1", "34", uid(&id), i(&x[1]), admin));
    }
    for (n, x) in g["user_admins"].as_array().unwrap().iter().enumerate() {
        let id = format!("g0_user_admin{}", n);
        an.user_admin_nodes.push(c07_user_node(keys, &id, x[0].as_str().unwrap(), b(&x[2]), i(&x[1]), admin));
        an.user_admin_edges.push(c07_edge(keys, gid, "0.1", "35", uid(&id), i(&x[1]), admin));
    }
    RoomNode {
        node: Node { id: rid, room_id: None, cdate: gdate, mdate: gdate, _entity: "0.0".to_string(), _json: Some("{}".to_string()), _binary: None,
                     verifying_key: keys.vk(admin), _signature: vec![], _local_id: None },
        last_modified: gdate,
        admin_edges, admin_nodes,
        auth_edges: vec![c07_edge(keys, rid, "0.0", "33", gid, gdate, admin)],
        auth_nodes: vec![an],
    }
}
fn replay_room_node_merge(sc: &Value) -> Value {
    let mut keys = Keys::new();
    let old = c07_room_node(sc, &mut keys);
    let mut ra = RoomAuthorisations { signing_key: Ed25519SigningKey::create_from(blake3::hash(sc["admin"].as_str().unwrap_or("K1").as_bytes()).as_bytes()), rooms: HashMap::new(), max_node_size: 1 << 20 };
    let first_seen = sc["part"].as_str().unwrap() == "new_room";
    if !first_seen {
        match old.parse() {
            Ok(r) => ra.add_room(r),
            Err(e) => return json!({"status": "precondition", "detail": format!("{}", e)}),
        }
    }
    let mut cand = old.clone();
    let place = sc["shape"]["place"].as_str().unwrap_or("");
    if let Some(ex) = sc.get("extra").filter(|e| !e.is_null()) {
        let source = sc["shape"]["source"].as_str().unwrap_or("fresh");
        let rid = cand.node.id;
        let gid = cand.auth_nodes[0].node.id;
        // the extra row: fresh, or an existing row of another list replayed unchanged
        let dup_id: Option<Uid> = if source == "duplicate_id" {
            Some(match place {
                "admin" => old.admin_nodes[0].node.id,
                "user" => old.auth_nodes[0].user_nodes[0].node.id,
                "user_admin" => old.auth_nodes[0].user_admin_nodes[0].node.id,
                _ => old.auth_nodes[0].right_nodes[0].node.id,
            })
        } else {
            None
        };
        let (mut unode, mut rnode) = if source == "fresh" || source == "duplicate_id" {
            if place == "right" {
                (None, Some(c07_right_node(&mut keys, "xrow", ex["entity"].as_str().unwrap(), b(&ex["mutate_self"]), b(&ex["mutate_all"]), i(&ex["date"]), ex["author"].as_str().unwrap())))
            } else {
                (Some(c07_user_node(&mut keys, "xrow", ex["key"].as_str().unwrap(), b(&ex["enabled"]), i(&ex["date"]), ex["author"].as_str().unwrap())), None)
            }
        } else {
            let n = match source {
                "admin_row" => old.admin_nodes[0].clone(),
                "user_row" => old.auth_nodes[0].user_nodes[0].clone(),
                _ => old.auth_nodes[0].user_admin_nodes[0].clone(),
            };
            (Some(n), None)
        };
        if let Some(d) = dup_id {
            if let Some(n) = unode.as_mut() { n.node.id = d; }
            if let Some(n) = rnode.as_mut() { n.node.id = d; }
        }
        let row_id = unode.as_ref().map(|n| n.node.id).or(rnode.as_ref().map(|n| n.node.id)).unwrap();
        let esrc = if ex["edge_src"].as_str().unwrap().starts_with("R1") { rid } else { gid };
        // ids are written by the checks as the row name padded with dots
        let edest = uid(ex["edge_dest"].as_str().unwrap_or("elsewhere").trim_end_matches('.'));
        let _ = row_id;
        let edge = c07_edge(&mut keys, esrc, "x", ex["edge_label"].as_str().unwrap(), edest, i(&ex["edge_date"]), ex["edge_author"].as_str().unwrap());
        if let Some(lg) = ex.get("legit").filter(|l| !l.is_null()) {
            let a2 = lg["author"].as_str().unwrap();
            let d2 = i(&lg["date"]);
            let n2 = c07_user_node(&mut keys, "x2row", "K2kkkkkkkkkkkkkkkkkkkkkkkkkkkkkkk", true, d2, a2);
            cand.auth_nodes[0].user_edges.push(c07_edge(&mut keys, gid, "0.1", "34", n2.node.id, d2, a2));
            cand.auth_nodes[0].user_nodes.push(n2);
        }
        match place {
            "admin" => { cand.admin_edges.push(edge); cand.admin_nodes.push(unode.unwrap()); }
            "user" => { cand.auth_nodes[0].user_edges.push(edge); cand.auth_nodes[0].user_nodes.push(unode.unwrap()); }
            "user_admin" => { cand.auth_nodes[0].user_admin_edges.push(edge); cand.auth_nodes[0].user_admin_nodes.push(unode.unwrap()); }
            _ => { cand.auth_nodes[0].right_edges.push(edge); cand.auth_nodes[0].right_nodes.push(rnode.unwrap()); }
        }
    }
    if let Some(sy) = sc.get("sym").filter(|e| !e.is_null()) {
        let ra_ = keys.vk(sy["row_author"].as_str().unwrap());
        let ea_ = keys.vk(sy["edge_author"].as_str().unwrap());
        match place {
            "admin" => { cand.admin_nodes[0].node.verifying_key = ra_; cand.admin_edges[0].verifying_key = ea_; cand.admin_edges[0].cdate = i(&sy["edge_date"]); }
            "user" => { cand.auth_nodes[0].user_nodes[0].node.verifying_key = ra_; cand.auth_nodes[0].user_edges[0].verifying_key = ea_; }
            "user_admin" => { cand.auth_nodes[0].user_admin_nodes[0].node.verifying_key = ra_; cand.auth_nodes[0].user_admin_edges[0].verifying_key = ea_; }
            _ => { cand.auth_nodes[0].right_nodes[0].node.verifying_key = ra_; cand.auth_nodes[0].right_edges[0].verifying_key = ea_; }
        }
    }
    match sc["shape"]["source"].as_str().unwrap_or("") {
        "omission" => match place {
            "admin" => { cand.admin_nodes.pop(); cand.admin_edges.pop(); }
            "user" => { cand.auth_nodes[0].user_nodes.pop(); cand.auth_nodes[0].user_edges.pop(); }
            "user_admin" => { cand.auth_nodes[0].user_admin_nodes.pop(); cand.auth_nodes[0].user_admin_edges.pop(); }
            _ => { cand.auth_nodes[0].right_nodes.pop(); cand.auth_nodes[0].right_edges.pop(); }
        },
        "altered" => cand.admin_nodes[0].node._json = Some("{\"altered\":true}".to_string()),
        _ => {}
    }
    // canonical rendering of a room (maps sorted): with nothing legitimately added, the merged room must equal the stored one
    fn canon(room: &Room) -> String {
        let mut out: Vec<String> = vec![];
        for (k, v) in &room.admins { out.push(format!("admin {:?} {:?}", k, v)); }
        for (gid, a) in &room.authorisations {
            for (k, v) in &a.users { out.push(format!("{:?} user {:?} {:?}", gid, k, v)); }
            for (k, v) in &a.user_admins { out.push(format!("{:?} user_admin {:?} {:?}", gid, k, v)); }
            for (k, v) in &a.rights { out.push(format!("{:?} right {:?} {:?}", gid, k, v)); }
        }
        out.sort();
        out.join("\n")
    }
    let stored = old.parse().ok().map(|r| canon(&r));
    let res = ra.prepare_room_node(if first_seen { None } else { Some(old) }, &mut cand);
    match res {
        Ok(changed) => {
            let parsed = cand.parse();
            let preserved = match (&parsed, &stored) { (Ok(room), Some(st)) => canon(room) == *st, _ => false };
            let mut admins_now: Vec<String> = vec![];
            if let Ok(room) = &parsed {
                for k in ["K1kkkkkkkkkkkkkkkkkkkkkkkkkkkkkkk", "K2kkkkkkkkkkkkkkkkkkkkkkkkkkkkkkk", "K3kkkkkkkkkkkkkkkkkkkkkkkkkkkkkkk"] {
                    if room.is_admin(&keys.vk(k), i64::MAX) { admins_now.push(k[..2].to_string()); }
                }
            }
            json!({"status": "done", "result": "Ok", "changed": changed, "parses": parsed.is_ok(), "admins_at_end_of_time": admins_now, "entries_preserved": preserved})
        }
        Err(e) => json!({"status": "done", "result": "Err", "error": format!("{}", e)}),
    }
}

pub fn dispatch(sc: &Value) -> Value {
    match sc["kind"].as_str().unwrap_or("") {
        "entity_mutation" => replay_entity_mutation(sc),
        "deletion" => replay_deletion(sc),
        "validate_node" => replay_validate_node(sc),
        "c12_mutation" => replay_c12_mutation(sc),
        "daily_marks" => replay_daily_marks(sc),
        "bytes_decoder" => replay_bytes_decoder(sc),
        "sql_clause" => crate::database::query::verif_hook::replay_sql_clause(sc),
        "room_node_merge" => replay_room_node_merge(sc),
        "room_mutation" => replay_room_mutation(sc),
        "date_fn" => {
            let d = i(&sc["date"]);
            let r = if sc["fn"].as_str().unwrap() == "date" { crate::date_utils::date(d) } else { crate::date_utils::date_next_day(d) };
            json!({"status": "done", "result": "Ok", "value": r})
        }
        "room_three_paths" => replay_room_three_paths(sc),
        "rooms_for_peer" => replay_rooms_for_peer(sc),
        "local_event_admission" => replay_local_event_admission(sc),
        "room_revocation" => replay_room_revocation(sc),
        "inbound_query" => replay_inbound_query(sc),
        "digest_pair" => replay_digest_pair(sc),
        "sign_oracle" => replay_sign_oracle(sc),
        "acquire_lock" => crate::synchronisation::room_locking_service::verif_hook::replay_acquire_lock(sc),
        "handshake" => crate::synchronisation::peer_inbound_service::verif_hook::replay_handshake(sc),
        "version_selection" => replay_version_selection(sc),
        "search_synchronised_row" => replay_search_synchronised_row(sc),
        "search_local_history" => replay_search_local_history(sc),
        "room_node_write_event" => replay_room_node_write_event(sc),
        "deleted_row_announced" => replay_deleted_row_announced(sc),
        "received_edge_foreign_source" => replay_received_edge_foreign_source(sc),
        "received_edge_deletion_foreign_source" => replay_received_edge_deletion_foreign_source(sc),
        "lock_service" => crate::synchronisation::room_locking_service::verif_hook::replay_lock_service(sc),
        "invite_consumption" => crate::network::peer_manager::verif_hook::replay_invite_consumption(sc),
        "data_model_update" => replay_data_model_update(sc),
        "c12_deletion" => replay_c12_deletion(sc),
        "validate_deletions_remote" => replay_validate_deletions_remote(sc),
        other => json!({"status": "unknown-kind", "kind": other}),
    }
}

#[test]
fn verif_replay() {
    let path = match std::env::var("VERIF_SCENARIO") {
        Ok(p) => p,
        Err(_) => return,
    };
    let text = std::fs::read_to_string(&path).expect("scenario file");
    let sc: Value = serde_json::from_str(&text).expect("scenario json");
    let list: Vec<Value> = match sc.as_array() {
        Some(a) => a.clone(),
        None => vec![sc],
    };
    for (n, one) in list.iter().enumerate() {
        let one2 = one.clone();
        let r = std::panic::catch_unwind(move || dispatch(&one2));
        let out = match r {
            Ok(v) => v,
            Err(e) => {
                let msg = if let Some(s) = e.downcast_ref::<&str>() {
                    s.to_string()
                } else if let Some(s) = e.downcast_ref::<String>() {
                    s.clone()
                } else {
                    "panic".to_string()
                };
                json!({"status": "done", "result": "panic", "message": msg})
            }
        };
        println!("VERIF-RESULT {} {}", n, out);
    }
}

// ---------------------------------------------------------------------------------------------
// API-level confirmation of findings (run only when VERIF_API names the scenario)
mod api {
    use crate::{
        configuration::Configuration,
        database::{
            graph_database::GraphDatabaseService,
            query_language::parameter::{Parameters, ParametersAdd},
        },
        event_service::EventService,
        security::{base64_encode, random32},
    };
    use std::path::PathBuf;

    fn data_path(name: &str) -> PathBuf {
        let base = std::env::var("VERIF_DATA_DIR").unwrap_or_else(|_| "/var/cache/discret-verif/data".to_string());
        let p: PathBuf = format!("{}/{}", base, name).into();
        std::fs::create_dir_all(&p).unwrap();
        p
    }

    /// C01: an update nested below an unchanged reference must still be authorised.
    /// One user, admin of a room that grants Person but not Pet.  The pet lives in another room.
    /// Moving the pet into the first room (where the user has no right on Pet) through a nested
    /// mutation whose parent does not change must be refused.
    #[tokio::test(flavor = "multi_thread")]
    async fn verif_api_nested_reference() {
        if std::env::var("VERIF_API").map(|v| v != "nested_reference").unwrap_or(true) {
            return;
        }
        let data_model = "
        ns {
            Person{ name:String, pets:[ns.Pet] }
            Pet{ name:String }
        }";
        let secret = random32();
        let (app, verifying_key, _) = GraphDatabaseService::start(
            "verif app",
            data_model,
            &secret,
            &random32(),
            data_path("nested_reference"),
            &Configuration::default(),
            EventService::new(),
        )
        .await
        .unwrap();
        let user_id = base64_encode(&verifying_key);
        let mk_room = |entity: &'static str| {
            let app = app.clone();
            let user_id = user_id.clone();
            async move {
                let mut param = Parameters::default();
                param.add("user_id", user_id).unwrap();
                param.add("entity", entity.to_string()).unwrap();
                let room = app
                    .mutate_raw(
                        r#"mutate mut {
                            sys.Room{
                                admin: [{ verif_key:$user_id }]
                                authorisations:[{
                                    name:"admin"
                                    rights:[{ entity:$entity mutate_self:true mutate_all:true }]
                                }]
                            }
                        }"#,
                        Some(param),
                    )
                    .await
                    .unwrap();
                base64_encode(&room.mutate_entities[0].node_to_mutate.id)
            }
        };
        let person_room = mk_room("ns.Person").await;
        let pet_room = mk_room("ns.Pet").await;

        let mut param = Parameters::default();
        param.add("person_room", person_room.clone()).unwrap();
        param.add("pet_room", pet_room.clone()).unwrap();
        let res = app
            .mutate_raw(
                r#"mutate mut {
                    ns.Person{
                        room_id: $person_room
                        name: "me"
                        pets:[{ room_id: $pet_room name:"kiki" }]
                    }
                }"#,
                Some(param),
            )
            .await
            .expect("both rooms grant what is needed");
        let person = &res.mutate_entities[0];
        let person_id = base64_encode(&person.node_to_mutate.id);
        let pet_id = base64_encode(&person.sub_nodes.get("pets").unwrap()[0].node_to_mutate.id);

        // direct attempt: refused (control)
        let mut param = Parameters::default();
        param.add("pet_id", pet_id.clone()).unwrap();
        param.add("person_room", person_room.clone()).unwrap();
        let direct = app
            .mutate_raw(
                r#"mutate mut { ns.Pet{ id:$pet_id room_id:$person_room name:"moved" } }"#,
                Some(param),
            )
            .await;
        println!("VERIF-API direct_refused={}", direct.is_err());

        // nested below the unchanged parent
        let mut param = Parameters::default();
        param.add("person_id", person_id.clone()).unwrap();
        param.add("pet_id", pet_id.clone()).unwrap();
        param.add("person_room", person_room.clone()).unwrap();
        let nested = app
            .mutate_raw(
                r#"mutate mut {
                    ns.Person{
                        id:$person_id
                        pets:[{ id:$pet_id room_id:$person_room name:"moved" }]
                    }
                }"#,
                Some(param),
            )
            .await;
        println!("VERIF-API nested_refused={}", nested.is_err());
        let q = app
            .query("query q{ ns.Pet{ name room_id } }", None)
            .await
            .unwrap();
        println!("VERIF-API pets={}", q.replace('\n', ""));
    }

    /// C01 probe: adding a reference to an existing row one may not mutate (the row itself is unchanged: "reference" shape)
    #[tokio::test(flavor = "multi_thread")]
    async fn verif_api_reference_edge_no_right() {
        if std::env::var("VERIF_API").map(|v| v != "reference_edge_no_right").unwrap_or(true) {
            return;
        }
        let data_model = "ns { Person{ name:String, pets:[ns.Pet] } Pet{ name:String } }";
        let (app, verifying_key, _) = GraphDatabaseService::start("verif app", data_model, &random32(), &random32(), data_path("reference_edge_no_right"), &Configuration::default(), EventService::new())
            .await
            .unwrap();
        let user_id = base64_encode(&verifying_key);
        let mut param = Parameters::default();
        param.add("user_id", user_id).unwrap();
        let room = app
            .mutate_raw(
                r#"mutate mut { sys.Room{ admin: [{ verif_key:$user_id }] authorisations:[{ name:"g" rights:[{ entity:"ns.Person" mutate_self:true mutate_all:true },{ entity:"ns.Pet" mutate_self:true mutate_all:true }] }] } }"#,
                Some(param),
            )
            .await
            .unwrap();
        let room_id = base64_encode(&room.mutate_entities[0].node_to_mutate.id);
        let auth_id = base64_encode(&room.mutate_entities[0].sub_nodes.get("authorisations").unwrap()[0].node_to_mutate.id);
        let mut param = Parameters::default();
        param.add("room", room_id.clone()).unwrap();
        let res = app.mutate_raw(r#"mutate mut { ns.Person{ room_id:$room name:"me" } }"#, Some(param)).await.unwrap();
        let person_id = base64_encode(&res.mutate_entities[0].node_to_mutate.id);
        let mut param = Parameters::default();
        param.add("room", room_id.clone()).unwrap();
        let res = app.mutate_raw(r#"mutate mut { ns.Pet{ room_id:$room name:"kiki" } }"#, Some(param)).await.unwrap();
        let pet_id = base64_encode(&res.mutate_entities[0].node_to_mutate.id);
        tokio::time::sleep(std::time::Duration::from_millis(20)).await;
        // ns.Person becomes read-only for everybody
        let mut param = Parameters::default();
        param.add("room", room_id.clone()).unwrap();
        param.add("auth", auth_id.clone()).unwrap();
        app.mutate_raw(
            r#"mutate mut { sys.Room{ id:$room authorisations:[{ id:$auth rights:[{ entity:"ns.Person" mutate_self:false mutate_all:false }] }] } }"#,
            Some(param),
        )
        .await
        .unwrap();
        tokio::time::sleep(std::time::Duration::from_millis(20)).await;
        let mut param = Parameters::default();
        param.add("person_id", person_id.clone()).unwrap();
        let direct = app.mutate_raw(r#"mutate mut { ns.Person{ id:$person_id name:"renamed" } }"#, Some(param)).await;
        println!("VERIF-API rename_refused={}", direct.is_err());
        let mut param = Parameters::default();
        param.add("person_id", person_id.clone()).unwrap();
        param.add("pet_id", pet_id.clone()).unwrap();
        let edge = app.mutate_raw(r#"mutate mut { ns.Person{ id:$person_id pets:[{ id:$pet_id }] } }"#, Some(param)).await;
        println!("VERIF-API reference_refused={}", edge.is_err());
        if let Ok(m) = &edge {
            println!("VERIF-API parent_node_present={} edge_insertions={}", m.mutate_entities[0].node_to_mutate.node.is_some(), m.mutate_entities[0].edge_insertions.len());
        }
        let q = app.query("query q{ ns.Person{ name pets{ name } } }", None).await.unwrap();
        println!("VERIF-API persons={}", q.replace('\n', ""));
    }

    /// C01: a reference from sys.Room to one of its authorisation groups (or from a group to one of
    /// its entries) must not be deletable outside a room mutation.
    #[tokio::test(flavor = "multi_thread")]
    async fn verif_api_delete_auth_reference() {
        if std::env::var("VERIF_API").map(|v| v != "delete_auth_reference").unwrap_or(true) {
            return;
        }
        let data_model = "ns { Person{ name:String } }";
        let secret = random32();
        let (app, verifying_key, _) = GraphDatabaseService::start(
            "verif app",
            data_model,
            &secret,
            &random32(),
            data_path("delete_auth_reference"),
            &Configuration::default(),
            EventService::new(),
        )
        .await
        .unwrap();
        let user_id = base64_encode(&verifying_key);
        let mut param = Parameters::default();
        param.add("user_id", user_id).unwrap();
        let room = app
            .mutate_raw(
                r#"mutate mut {
                    sys.Room{
                        admin: [{ verif_key:$user_id }]
                        authorisations:[{
                            name:"admin"
                            rights:[{ entity:"ns.Person" mutate_self:true mutate_all:true }]
                        }]
                    }
                }"#,
                Some(param),
            )
            .await
            .unwrap();
        let room_insert = &room.mutate_entities[0];
        let room_id = base64_encode(&room_insert.node_to_mutate.id);
        let auth = &room_insert.sub_nodes.get("authorisations").unwrap()[0];
        let auth_id = base64_encode(&auth.node_to_mutate.id);
        let before = app
            .query("query q{ sys.Room{ authorisations{ name } } }", None)
            .await
            .unwrap();
        let mut param = Parameters::default();
        param.add("room_id", room_id.clone()).unwrap();
        param.add("auth_id", auth_id.clone()).unwrap();
        let res = app
            .delete(
                "delete d { sys.Room { $room_id authorisations[$auth_id] } }",
                Some(param),
            )
            .await;
        println!("VERIF-API reference_delete_refused={}", res.is_err());
        let after = app
            .query("query q{ sys.Room{ authorisations{ name } } }", None)
            .await
            .unwrap();
        println!("VERIF-API before={} after={}", before.replace('\n', ""), after.replace('\n', ""));
    }
}

#[test]
fn verif_chrono_range() {
    if std::env::var("VERIF_CHRONO").is_err() {
        return;
    }
    use chrono::DateTime;
    let ok = |ms: i64| DateTime::from_timestamp_millis(ms).is_some();
    // largest valid
    let (mut lo, mut hi) = (0i64, i64::MAX);
    while lo < hi {
        let mid = ((lo as i128 + hi as i128 + 1) / 2) as i64;
        if ok(mid) { lo = mid } else { hi = mid - 1 }
    }
    let max_ok = lo;
    let (mut lo, mut hi) = (i64::MIN, 0i64);
    while lo < hi {
        let mid = (lo as i128 + hi as i128).div_euclid(2) as i64;
        if ok(mid) { hi = mid } else { lo = mid + 1 }
    }
    let min_ok = lo;
    println!("VERIF-CHRONO from_timestamp_millis valid range [{}, {}]", min_ok, max_ok);
    for ms in [min_ok, max_ok, max_ok - 86_400_000, max_ok - 86_400_000 + 1, 0, -1, 86_399_999, -86_400_001] {
        let d = std::panic::catch_unwind(|| crate::date_utils::date(ms));
        let n = std::panic::catch_unwind(|| crate::date_utils::date_next_day(ms));
        println!("VERIF-CHRONO ms={} date={:?} next={:?}", ms, d.ok(), n.ok());
    }
}
