// access to the private Edge::hash for the native replay driver (cfg(discret_verif) only)
use super::Edge;
pub fn edge_hash(e: &Edge) -> Vec<u8> {
    e.hash().as_bytes().to_vec()
}
