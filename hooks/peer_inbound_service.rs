// Native replay of LocalPeerService::process_local_event (private async fn) — cfg(discret_verif) only.
use super::*;

/// runs the real handler on RoomDefinitionChanged(room) for a connection whose authenticated key is `key`;
/// returns the rooms the handler admitted for that connection
pub fn replay_room_definition_changed(room: crate::database::room::Room, key: Vec<u8>) -> Vec<Uid> {
    let rt = tokio::runtime::Builder::new_current_thread().enable_all().build().unwrap();
    rt.block_on(async move {
        let (iqs, mut admitted_rx) = crate::synchronisation::peer_outbound_service::verif_hook::make_inbound_query_service();
        let (event_sender, mut event_rx) = mpsc::channel::<RemoteEvent>(8);
        let remote_key = Arc::new(Mutex::new(key));
        let remote_rooms: HashSet<Uid> = HashSet::new();
        let _ = LocalPeerService::process_local_event(
            LocalEvent::RoomDefinitionChanged(Arc::new(room)),
            &remote_key,
            &event_sender,
            &remote_rooms,
            &iqs,
        )
        .await;
        drop(iqs);
        let mut out = vec![];
        while let Ok(r) = admitted_rx.try_recv() {
            out.push(r);
        }
        let _ = event_rx.try_recv();
        out
    })
}
