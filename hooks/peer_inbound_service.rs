// Native replay of LocalPeerService::process_local_event (private async fn) — cfg(discret_verif) only.
use super::*;

/// runs the real handler on RoomDefinitionChanged(room) for a connection whose authenticated key is `key`;
/// returns the rooms the handler admitted for that connection
pub fn replay_room_definition_changed(room: crate::database::room::Room, key: Vec<u8>) -> Vec<Uid> {
    let rt = tokio::runtime::Builder::new_current_thread().enable_all().build().unwrap();
    rt.block_on(async move {
        let (iqs, mut admitted_rx) = crate::synchronisation::peer_outbound_service::verif_hook::make_inbound_query_service();
        let (event_sender, mut event_rx) = mpsc::channel::<RemoteEvent>(8);
        let remote_key = Arc::new(Mutex::new(key));
        let remote_rooms: HashSet<Uid> = HashSet::new();
        let _ = LocalPeerService::process_local_event(
            LocalEvent::RoomDefinitionChanged(Arc::new(room)),
            &remote_key,
            &event_sender,
            &remote_rooms,
            &iqs,
        )
        .await;
        drop(iqs);
        // the hook forwards admissions from the (now closed) room channel: read until the forwarder is done
        let mut out = vec![];
        while let Some(r) = admitted_rx.recv().await {
            out.push(r);
        }
        let _ = event_rx.try_recv();
        out
    })
}

/// C19: runs the real LocalPeerService::initialise_connection against a scripted remote side.
/// The scenario carries relations (does the answer verify, is the proven key the expected one, …); real keys and
/// signatures realising them are built here.
pub fn replay_handshake(sc: &serde_json::Value) -> serde_json::Value {
    use crate::security::{base64_encode, new_uid, Ed25519SigningKey, SigningKey};
    use serde_json::json;
    let b = |k: &str| sc[k].as_bool().unwrap_or(false);
    let rt = tokio::runtime::Builder::new_multi_thread().enable_all().worker_threads(2).build().unwrap();
    rt.block_on(async move {
        let remote = Ed25519SigningKey::create_from(&crate::security::random32());
        let other = Ed25519SigningKey::create_from(&crate::security::random32());
        let remote_key: Vec<u8> = if b("remote_key_wellformed") { remote.export_verifying_key() } else { vec![9, 9, 9] };

        // the sys.Peer row of the remote side
        let mut peer = crate::database::system_entities::Peer::create(new_uid(), base64_encode(&crate::security::random32()));
        if !b("peer_valid") {
            peer.room_id = Some(new_uid());
        }
        peer.sign(&remote).unwrap();
        peer.verifying_key = remote_key.clone();

        let token_type = match sc["token_type"].as_str().unwrap() {
            "AllowedPeer" => {
                let expected = if !b("expected_decodes") {
                    "!!! not base64 !!!".to_string()
                } else if b("expected_matches") {
                    base64_encode(&remote_key)
                } else {
                    base64_encode(&other.export_verifying_key())
                };
                TokenType::AllowedPeer(crate::database::system_entities::AllowedPeer {
                    peer: crate::database::system_entities::Peer { id: "peer".to_string(), verifying_key: expected },
                    meeting_token: "".to_string(),
                })
            }
            "OwnedInvite" => TokenType::OwnedInvite(crate::database::system_entities::OwnedInvite { id: new_uid(), room: None, authorisation: None }),
            _ => {
                let mut inv = crate::database::system_entities::Invite { invite_id: new_uid(), application: "verif".to_string(), invite_sign: vec![] };
                let signer = if b("invite_signed_by_remote") { &remote } else { &other };
                inv.invite_sign = signer.sign(&inv.hash());
                TokenType::Invite(inv)
            }
        };
        let local_key = if b("local_is_remote") { remote_key.clone() } else { other.export_verifying_key() };

        // scripted remote side: answers the identity challenge
        let (remote_sender, mut queries) = mpsc::channel::<QueryProtocol>(4);
        let (answers, remote_receiver) = mpsc::channel::<Answer>(4);
        let query_service = QueryService::start(remote_sender, remote_receiver);
        let proof_valid = b("proof_valid");
        let query_fails = b("query_fails");
        let answer_peer = peer.clone();
        let responder = tokio::spawn(async move {
            let mut challenges = 0;
            while let Some(q) = queries.recv().await {
                if let Query::ProveIdentity(challenge) = q.query {
                    challenges += 1;
                    if query_fails {
                        let _ = answers.send(Answer { id: q.id, success: false, complete: true, serialized: bincode::serialize(&Error::Authorisation("refused".to_string())).unwrap() }).await;
                        continue;
                    }
                    let chall_signature = if proof_valid { remote.sign(&challenge) } else { remote.sign(b"another challenge") };
                    let ans = IdentityAnswer { peer: answer_peer.clone(), chall_signature };
                    let _ = answers.send(Answer { id: q.id, success: true, complete: true, serialized: bincode::serialize(&ans).unwrap() }).await;
                }
            }
            challenges
        });

        let (pcs_sender, mut pcs_rx) = mpsc::channel::<crate::peer_connection_service::PeerConnectionMessage>(8);
        let peer_service = PeerConnectionService { sender: pcs_sender };
        let (event_sender, mut event_rx) = mpsc::channel::<RemoteEvent>(8);
        if b("send_event_fails") {
            event_rx.close();
        }
        let conn_ready = Arc::new(AtomicBool::new(true));
        let bound = Arc::new(Mutex::new(Vec::<u8>::new()));
        let info = ConnectionInfo { endpoint_id: new_uid(), remote_id: new_uid(), conn_id: new_uid(), meeting_token: [0; crate::security::MEETING_TOKEN_SIZE], peer_verifying_key: vec![] };
        let res = LocalPeerService::initialise_connection(&info, &local_key, token_type, &conn_ready, &query_service, &bound, &peer_service, &event_sender).await;
        drop(query_service);
        drop(peer_service);
        let mut effects: Vec<String> = vec![];
        let mut connected_is_remote = true;
        while let Ok(m) = pcs_rx.try_recv() {
            match m {
                crate::peer_connection_service::PeerConnectionMessage::PeerConnected(k, _) => {
                    connected_is_remote &= k.eq(&remote_key);
                    effects.push("connected".to_string())
                }
                crate::peer_connection_service::PeerConnectionMessage::InviteAccepted(_, _) => effects.push("invite_accepted".to_string()),
                _ => effects.push("other".to_string()),
            }
        }
        while let Ok(e) = event_rx.try_recv() {
            effects.push(match e {
                RemoteEvent::Ready => "event:Ready".to_string(),
                RemoteEvent::ReadyFingerprint => "event:ReadyFingerprint".to_string(),
                _ => "event:other".to_string(),
            });
        }
        effects.sort();
        effects.dedup();
        let key = bound.lock().await.clone();
        responder.abort();
        json!({
            "status": "done",
            "result": match &res { Ok(true) => "Ok(true)".to_string(), Ok(false) => "Ok(false)".to_string(), Err(_) => "Err".to_string() },
            "error": res.err().map(|e| e.to_string()),
            "effects": effects,
            "key_bound": !key.is_empty(),
            "bound_is_remote": key.eq(&remote_key),
            "connected_is_remote": connected_is_remote,
        })
    })
}

/// C08 (former member): the real InboundQueryService task serves a connection for which `room` was admitted earlier; then the
/// real process_local_event handles RoomDefinitionChanged(room) for the connection's key; is a RoomNode request for that room
/// still answered with data afterwards ?
pub fn replay_room_revocation(room: crate::database::room::Room, key: Vec<u8>) -> serde_json::Value {
    use crate::synchronisation::peer_outbound_service::{InboundQueryService, RemotePeerHandle};
    use serde_json::json;
    let rt = tokio::runtime::Builder::new_multi_thread().enable_all().worker_threads(2).build().unwrap();
    rt.block_on(async move {
        let base = std::env::var("VERIF_DATA_DIR").unwrap_or_else(|_| "/var/cache/discret-verif/data".to_string());
        let path: std::path::PathBuf = format!("{}/c08rev/{}", base, crate::security::base64_encode(&crate::security::random32()[0..6])).into();
        std::fs::create_dir_all(&path).unwrap();
        let (db, own_key, _) = crate::database::graph_database::GraphDatabaseService::start(
            "verif c08 revocation",
            "ns { Person{ name:String } }",
            &crate::security::random32(),
            &crate::security::random32(),
            path,
            &crate::configuration::Configuration::default(),
            crate::event_service::EventService::new(),
        )
        .await
        .unwrap();
        let (reply, mut answers) = mpsc::channel::<Answer>(16);
        let (query_sender, query_receiver) = mpsc::channel::<QueryProtocol>(4);
        let (pcs_sender, _pcs_rx) = mpsc::channel::<crate::peer_connection_service::PeerConnectionMessage>(8);
        let remote_key = Arc::new(Mutex::new(key));
        let conn_ready = Arc::new(AtomicBool::new(true));
        let mut allowed = HashSet::new();
        allowed.insert(room.id);
        let iqs = InboundQueryService::start(
            crate::security::HardwareFingerprint { id: crate::security::new_uid(), name: "hw".to_string() },
            [7; 32],
            crate::security::new_uid(),
            RemotePeerHandle { allowed_room: allowed, db, verifying_key: own_key, reply },
            query_receiver,
            PeerConnectionService { sender: pcs_sender },
            remote_key.clone(),
            conn_ready,
        );
        let rid = room.id;
        let served = |a: Option<Answer>| a.map(|a| a.success).unwrap_or(false);
        query_sender.send(QueryProtocol { id: 1, query: Query::RoomNode(rid) }).await.unwrap();
        let before = served(tokio::time::timeout(std::time::Duration::from_secs(5), answers.recv()).await.ok().flatten());
        let (event_sender, mut event_rx) = mpsc::channel::<RemoteEvent>(8);
        let remote_rooms: HashSet<Uid> = HashSet::new();
        let _ = LocalPeerService::process_local_event(LocalEvent::RoomDefinitionChanged(Arc::new(room)), &remote_key, &event_sender, &remote_rooms, &iqs).await;
        let _ = event_rx.try_recv();
        // no wall clock: the revocation and the requests reach the service task on two queues of one `select!`, which picks at
        // random among the ready ones; the revocation was queued first, so every request that is still served gave the task one more
        // draw at taking it.  The room counts as still served only if 64 requests in a row are answered with data.
        let mut after = true;
        for n in 0..64u64 {
            query_sender.send(QueryProtocol { id: 2 + n, query: Query::RoomNode(rid) }).await.unwrap();
            after = served(tokio::time::timeout(std::time::Duration::from_secs(30), answers.recv()).await.ok().flatten());
            if !after {
                break;
            }
        }
        json!({"status": "done", "served_before": before, "served_after": after})
    })
}
