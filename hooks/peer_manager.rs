// Native replay of the invitation life cycle on a real PeerManager (private fields) — cfg(discret_verif) only.
// Two real instances (two databases): A consumes the invitation, B supplies the peer row (and, for an accepted
// invitation, the invitation itself).  No network: the endpoint is a closed channel and multicast is off.
use super::*;
use serde_json::{json, Value};

use crate::{
    configuration::Configuration,
    database::graph_database::GraphDatabaseService,
    database::query_language::parameter::{Parameters, ParametersAdd},
    database::system_entities::DefaultRoom,
    discret::{DiscretParams, DiscretServices},
    event_service::EventService,
    security::{base64_encode as b64, derive_key, random32, HardwareFingerprint},
    signature_verification_service::SignatureVerificationService,
};

async fn instance(name: &str) -> (PeerManager, DiscretServices, Vec<u8>) {
    let base = std::env::var("VERIF_DATA_DIR").unwrap_or_else(|_| "/var/cache/discret-verif/data".to_string());
    let path: std::path::PathBuf = format!("{}/c19/{}-{}", base, name, b64(&random32()[0..6])).into();
    std::fs::create_dir_all(&path).unwrap();
    let key_material = random32();
    let app_key = "verif c19";
    let meeting_secret = MeetingSecret::new(derive_key(&format!("{}{}", "MEETING_SECRET", app_key), &key_material));
    let pub_key = meeting_secret.public_key();
    let events = EventService::new();
    let configuration = Configuration::default();
    let (database, verifying_key, private_room_id) =
        GraphDatabaseService::start(app_key, "ns { E{ name:String } }", &key_material, pub_key.as_bytes(), path, &configuration, events.clone())
            .await
            .unwrap();
    let services = DiscretServices { events, database, signature_verification: SignatureVerificationService::start(1) };
    let params = DiscretParams {
        app_key: app_key.to_string(),
        verifying_key: verifying_key.clone(),
        private_room_id,
        hardware_fingerprint: HardwareFingerprint { id: crate::security::new_uid(), name: "verif".to_string() },
        configuration,
    };
    let (sender, _rx) = mpsc::channel(4);
    let endpoint = DiscretEndpoint { id: crate::security::new_uid(), sender, ipv4_port: 0, ipv4_cert_hash: [0; 32] };
    let pm = PeerManager::new(&params, &services, endpoint, None, meeting_secret).await.unwrap();
    (pm, services, verifying_key)
}

fn typed_as(pm: &PeerManager, token: &MeetingToken, key: &Vec<u8>, id: &Uid) -> (String, bool) {
    match pm.get_token_type(token, key) {
        Ok(TokenType::OwnedInvite(o)) => ("OwnedInvite".to_string(), o.id.eq(id)),
        Ok(TokenType::Invite(i)) => ("Invite".to_string(), i.invite_id.eq(id)),
        Ok(TokenType::AllowedPeer(_)) => ("AllowedPeer".to_string(), false),
        Err(_) => ("none".to_string(), false),
    }
}

pub fn replay_invite_consumption(sc: &Value) -> Value {
    let rt = tokio::runtime::Builder::new_multi_thread().enable_all().worker_threads(2).build().unwrap();
    rt.block_on(async {
        let (mut a, a_services, _a_key) = instance("a").await;
        let (mut b, b_services, b_key) = instance("b").await;
        let b_peer = b_services.database.get_peer_node(b_key.clone()).await.unwrap().unwrap();
        let third_key = random32().to_vec();
        let owned_kind = sc["invite_kind"].as_str().unwrap() == "OwnedInvite";

        let default_room = if sc["with_room"].as_bool().unwrap_or(false) {
            let mut p = Parameters::default();
            p.add("k", b64(&_a_key)).unwrap();
            let created = a_services
                .database
                .mutate_raw(r#"mutate { sys.Room{ admin:[{ verif_key:$k }] authorisations:[{ name:"g" }] } }"#, Some(p))
                .await
                .unwrap();
            let room = b64(&created.mutate_entities[0].node_to_mutate.id);
            let authorisation = b64(&created.mutate_entities[0].sub_nodes.get("authorisations").unwrap()[0].node_to_mutate.id);
            Some(DefaultRoom { room, authorisation })
        } else {
            None
        };

        // the invitation is created by its owner (A for an owned invitation, B for one that A accepts)
        let layout = sc["other"].as_str().unwrap_or("none");
        let twin = layout == "twin";
        let invite_bytes = if owned_kind || twin { a.create_invite(default_room).await.unwrap() } else { b.create_invite(None).await.unwrap() };
        let invite: Invite = bincode::deserialize(&invite_bytes).unwrap();
        if !owned_kind || twin {
            // twin: the owner accepts its own invitation, the token's list becomes [OwnedInvite(x), Invite(x)]
            a.accept_invite(&invite_bytes).await.unwrap();
        }
        if layout == "dup" {
            a.accept_invite(&invite_bytes).await.unwrap();
        }
        let token = MeetingSecret::derive_token(DERIVE_STRING, &invite.invite_id);
        // the entry being consumed is the one of the scenario's kind
        let token_type = a
            .allowed_token
            .get(&token)
            .unwrap()
            .iter()
            .find(|t| matches!((t, owned_kind), (TokenType::OwnedInvite(_), true) | (TokenType::Invite(_), false)))
            .unwrap()
            .clone();
        let (before, before_same) = typed_as(&a, &token, &b_key, &invite.invite_id);

        let result = a.invite_accepted(token_type, b_peer).await;
        let (after, _) = typed_as(&a, &token, &third_key, &invite.invite_id);
        // is an entry of the consumed kind for this invitation still in the table ?
        let after_same = a.allowed_token.get(&token).map(|l| {
            l.iter().any(|t| match t {
                TokenType::OwnedInvite(o) => owned_kind && o.id.eq(&invite.invite_id),
                TokenType::Invite(i) => !owned_kind && i.invite_id.eq(&invite.invite_id),
                _ => false,
            })
        }).unwrap_or(false);
        json!({
            "status": "done",
            "result": if result.is_ok() { "Ok".to_string() } else { format!("Err({})", result.err().unwrap()) },
            "typed_before": before,
            "typed_before_is_this_invite": before_same,
            "typed_after": after,
            "typed_as_invite_again": after_same,
        })
    })
}
