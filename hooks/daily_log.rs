// Read access to the private marks of DailyMutations for the native replay driver (cfg(discret_verif) only).
use super::DailyMutations;
use crate::security::Uid;

pub fn dump(dm: &DailyMutations) -> Vec<(Uid, String, i64)> {
    let mut out = vec![];
    for (room, ents) in &dm.room_dates {
        for (ent, days) in ents {
            for d in days {
                out.push((*room, ent.clone(), *d));
            }
        }
    }
    out
}
