// Native replay of RoomLockService::acquire_lock (private async fn) — cfg(discret_verif) only.
use super::*;
use serde_json::{json, Value};

fn uid16(name: &str) -> Uid {
    crate::security::derive_uid("verif", name.as_bytes())
}
fn id32(name: &str) -> [u8; 32] {
    *blake3::hash(name.as_bytes()).as_bytes()
}

pub fn replay_acquire_lock(sc: &Value) -> Value {
    let rt = tokio::runtime::Builder::new_current_thread().build().unwrap();
    let mut peer_lock_request: HashMap<[u8; 32], PeerLockRequest> = HashMap::new();
    let mut peer_queue: VecDeque<[u8; 32]> = VecDeque::new();
    let mut locked: HashSet<Uid> = HashSet::new();
    let mut names: HashMap<[u8; 32], String> = HashMap::new();
    let mut room_names: HashMap<Uid, String> = HashMap::new();
    // (receiver, call before which it is dropped): a peer whose send is modelled as failing has dropped its receiver right
    // before the call during which the first failure is seen
    let mut receivers: Vec<(Option<mpsc::UnboundedReceiver<Uid>>, Option<u64>)> = vec![];
    for p in sc["peers"].as_array().unwrap() {
        let pname = p["peer"].as_str().unwrap();
        let (tx, rx) = mpsc::unbounded_channel::<Uid>();
        let drop_at = match sc["drop_before_call"][pname].as_u64() {
            Some(c) => Some(c),
            // scenarios written before drop_before_call existed: any failed send = dropped from the start
            None => match sc["receiver_alive"][pname].as_array().map(|a| a.iter().all(|x| x.as_bool().unwrap_or(true))).unwrap_or(true) {
                true => None,
                false => Some(0),
            },
        };
        receivers.push((Some(rx), drop_at));
        let mut rooms = VecDeque::new();
        for r in p["rooms"].as_array().unwrap() {
            let u = uid16(r.as_str().unwrap());
            room_names.insert(u, r.as_str().unwrap().to_string());
            rooms.push_back(u);
        }
        let id = id32(pname);
        names.insert(id, pname.to_string());
        peer_lock_request.insert(id, PeerLockRequest { rooms, reply: tx });
        peer_queue.push_front(id);
    }
    for r in sc["locked"].as_array().unwrap() {
        let u = uid16(r.as_str().unwrap());
        room_names.insert(u, r.as_str().unwrap().to_string());
        locked.insert(u);
    }
    let mut avalaible: usize = sc["avalaible"].as_u64().unwrap() as usize;
    for call in 0..sc["calls"].as_u64().unwrap_or(1) {
        for r in receivers.iter_mut() {
            if r.1 == Some(call) {
                r.0 = None;
            }
        }
        rt.block_on(RoomLockService::acquire_lock(
            &mut peer_lock_request,
            &mut peer_queue,
            &mut locked,
            &mut avalaible,
        ));
    }
    let mut l: Vec<String> = locked.iter().map(|u| room_names[u].clone()).collect();
    l.sort();
    let q: Vec<String> = peer_queue.iter().map(|p| names[p].clone()).collect();
    let mut reqs = serde_json::Map::new();
    for (k, v) in &peer_lock_request {
        reqs.insert(names[k].clone(), json!(v.rooms.iter().map(|u| room_names[u].clone()).collect::<Vec<String>>()));
    }
    json!({"status": "done", "result": "Ok", "avalaible": avalaible, "locked": l, "queue": q, "requests": Value::Object(reqs)})
}

/// C20 (service loop): the real RoomLockService task driven through its public API with a scripted message sequence;
/// the grants delivered after each message are reported.  A receiver is dropped right before the message during which the
/// model saw the first failed send on its channel.
/// No wall clock is involved: the runtime has a single thread, so the service task only runs while this driver is suspended in
/// `yield_now`, and once it has taken the message out of its queue it runs it to completion (the handling has no suspension
/// point besides `recv`) before the driver is polled again.
pub fn replay_lock_service(sc: &Value) -> Value {
    let rt = tokio::runtime::Builder::new_current_thread().enable_all().build().unwrap();
    rt.block_on(async {
        let svc = RoomLockService::start(sc["max_lock"].as_u64().unwrap() as usize);
        let msgs = sc["messages"].as_array().unwrap();
        // (peer name, receiver, message index before which it is dropped)
        let mut receivers: Vec<(String, Option<mpsc::UnboundedReceiver<Uid>>, Option<u64>)> = vec![];
        let mut room_names: HashMap<Uid, String> = HashMap::new();
        let mut grants: Vec<Vec<Vec<String>>> = vec![];
        for (i, m) in msgs.iter().enumerate() {
            for r in receivers.iter_mut() {
                if r.2 == Some(i as u64) {
                    r.1 = None;
                }
            }
            if m["kind"].as_str().unwrap() == "request" {
                let pname = m["peer"].as_str().unwrap().to_string();
                let mut rooms = VecDeque::new();
                for r in m["rooms"].as_array().unwrap() {
                    let u = uid16(r.as_str().unwrap());
                    room_names.insert(u, r.as_str().unwrap().to_string());
                    rooms.push_back(u);
                }
                let (tx, rx) = mpsc::unbounded_channel::<Uid>();
                let drop_at = m["drop_before_message"].as_u64();
                let rx = if drop_at == Some(i as u64) { None } else { Some(rx) };
                receivers.push((pname.clone(), rx, drop_at));
                svc.request_locks(id32(&pname), rooms, tx).await;
            } else {
                let r = m["room"].as_str().unwrap();
                room_names.insert(uid16(r), r.to_string());
                svc.unlock(uid16(r)).await;
            }
            // the message has been handled once the task has taken it out of the queue and control has come back here
            let mut taken = false;
            for _ in 0..10_000 {
                tokio::task::yield_now().await;
                if svc.sender.capacity() == svc.sender.max_capacity() {
                    taken = true;
                    break;
                }
            }
            if !taken {
                return json!({"status": "stuck", "detail": format!("message {} was never taken out of the queue", i)});
            }
            for _ in 0..8 {
                tokio::task::yield_now().await;
            }
            let mut now: Vec<Vec<String>> = vec![];
            for r in receivers.iter_mut() {
                if let Some(rx) = r.1.as_mut() {
                    while let Ok(room) = rx.try_recv() {
                        now.push(vec![r.0.clone(), room_names.get(&room).cloned().unwrap_or_else(|| "?".to_string())]);
                    }
                }
            }
            now.sort();
            grants.push(now);
        }
        json!({"status": "done", "grants": grants})
    })
}
