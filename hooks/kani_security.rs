// Kani proof harnesses (E2) for the byte-level decoders of security.rs.  Compiled only by `cargo kani`
// (cfg(kani)); included by a one-line hook at the end of src/security.rs.
#![allow(dead_code, unused_imports)]
use super::*;

// ---- stubs: elliptic-curve arithmetic and base64 are not the subject; they return arbitrary values of their type
fn stub_vk_from_bytes(
    _bytes: &[u8; 32],
) -> std::result::Result<ed25519_dalek::VerifyingKey, ed25519_dalek::SignatureError> {
    if kani::any() {
        Ok(ed25519_dalek::VerifyingKey::default())
    } else {
        Err(ed25519_dalek::SignatureError::new())
    }
}

fn stub_dalek_verify(
    _vk: &ed25519_dalek::VerifyingKey,
    _msg: &[u8],
    _sig: &ed25519_dalek::Signature,
) -> std::result::Result<(), ed25519_dalek::SignatureError> {
    if kani::any() {
        Ok(())
    } else {
        Err(ed25519_dalek::SignatureError::new())
    }
}

fn stub_format(_args: core::fmt::Arguments<'_>) -> String {
    String::new()
}

const MAXLEN: usize = 40;

fn any_bytes(len: usize) -> Vec<u8> {
    let arr: [u8; MAXLEN] = kani::any();
    arr[..len].to_vec()
}

/// import_verifying_key never panics, for every byte string of length 0..=40
#[kani::proof]
#[kani::unwind(42)]
#[kani::stub(ed25519_dalek::VerifyingKey::from_bytes, stub_vk_from_bytes)]
#[kani::stub(alloc::fmt::format, stub_format)]
fn c14_import_verifying_key_no_panic() {
    let len: usize = kani::any();
    kani::assume(len <= MAXLEN);
    let key = any_bytes(len);
    let r = import_verifying_key(&key);
    kani::cover!(r.is_ok(), "some key is accepted");
    kani::cover!(r.is_err(), "some key is refused");
    if r.is_ok() {
        assert!(len == 33 && key[0] == KEY_TYPE_ED_2519);
    }
    std::mem::forget(r);
}

/// Ed2519VerifyingKey::verify never panics, for every signature length 0..=70 and message length 0..=8
#[kani::proof]
#[kani::unwind(72)]
#[kani::stub(<ed25519_dalek::VerifyingKey as ed25519_dalek::Verifier<ed25519_dalek::Signature>>::verify, stub_dalek_verify)]
#[kani::stub(alloc::fmt::format, stub_format)]
fn c14_verify_signature_no_panic() {
    let vk = Ed2519VerifyingKey {
        veriying_key: ed25519_dalek::VerifyingKey::default(),
    };
    let sig_arr: [u8; 70] = kani::any();
    let slen: usize = kani::any();
    kani::assume(slen <= 70);
    let msg: [u8; 8] = kani::any();
    let mlen: usize = kani::any();
    kani::assume(mlen <= 8);
    let r = vk.verify(&msg[..mlen], &sig_arr[..slen]);
    kani::cover!(r.is_ok(), "some signature is accepted");
    kani::cover!(r.is_err(), "some signature is refused");
    if r.is_ok() {
        assert!(slen == 64);
    }
    std::mem::forget(r);
}

/// uid_from never panics and accepts exactly the 16-byte inputs
#[kani::proof]
#[kani::unwind(42)]
fn c14_uid_from_no_panic() {
    let len: usize = kani::any();
    kani::assume(len <= MAXLEN);
    let v = any_bytes(len);
    let r = uid_from(v);
    kani::cover!(r.is_ok(), "accepted");
    kani::cover!(r.is_err(), "refused");
    assert!(r.is_ok() == (len == 16));
    std::mem::forget(r);
}
