// Native replay support for C08 (cfg(discret_verif) only): construct the private parts of the inbound query service.
use super::*;

/// the receiver yields every room the handler admits (works with the room channel before and after it also carried revocations)
pub fn make_inbound_query_service() -> (InboundQueryService, tokio::sync::mpsc::UnboundedReceiver<Uid>) {
    let (room_sender, mut inner) = mpsc::unbounded_channel();
    let (tx, room_receiver) = mpsc::unbounded_channel::<Uid>();
    tokio::spawn(async move {
        while let Some(m) = inner.recv().await {
            if let Some(u) = admitted_of(m) {
                let _ = tx.send(u);
            }
        }
    });
    (InboundQueryService { room_sender }, room_receiver)
}

trait RoomUpdate {
    fn admitted(self) -> Option<Uid>;
}
impl RoomUpdate for Uid {
    fn admitted(self) -> Option<Uid> {
        Some(self)
    }
}
impl RoomUpdate for (Uid, bool) {
    fn admitted(self) -> Option<Uid> {
        if self.1 {
            Some(self.0)
        } else {
            None
        }
    }
}
fn admitted_of<T: RoomUpdate>(m: T) -> Option<Uid> {
    m.admitted()
}
