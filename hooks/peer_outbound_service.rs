// Native replay support for C08 (cfg(discret_verif) only): construct the private parts of the inbound query service.
use super::*;

pub fn make_inbound_query_service() -> (InboundQueryService, tokio::sync::mpsc::UnboundedReceiver<Uid>) {
    let (room_sender, room_receiver) = mpsc::unbounded_channel::<Uid>();
    (InboundQueryService { room_sender }, room_receiver)
}
