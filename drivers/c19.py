"""C19 — connections are trusted only after key proof; invitations are single-use (handshake and consumption kernels).
(a) invite consumption: PeerManager::invite_accepted is executed on a symbolic token table holding the invitation; afterwards
    the real PeerManager::get_token_type must no longer type a connection that presents the invitation's token as that invitation;
(b) handshake: LocalPeerService::initialise_connection with a symbolic identity answer: every trust effect (the remote key is
    bound to the connection, the invitation is consumed, the peer is reported connected, the ready event is sent) happens only
    when the answer verifies against the challenge drawn by THIS call and the token-type specific check holds."""
import z3
from mirsym.interp import *
from mirsym.values import *
from mirsym.models import deref, SegmentEnd, A
from .lib import *

REQUIRED_WITNESSES = ['consumed', 'trusted', 'rejected']
BOUNDS = {
    'quick': '(a) token table = the invitation under its derived token, alone / with an unrelated entry under another token / with its twin (the owner accepted its own '
             'invitation: [OwnedInvite(x), Invite(x)]) / registered twice; '
             'owned / accepted invitation, with and without default room; every await completes (Ok) or fails (Err) as a choice; '
             '(b) each token type, symbolic identity answer, symbolic expected key, symbolic local key',
    'thorough': 'same as quick',
}
ASSUMPTIONS = [
    'every awaited service call (database, peer connection service, event channel) completes at once with a chosen Ok/Err: the coroutine is run to completion in one poll; '
    'what the services do behind those calls is outside',
    'MeetingSecret::derive_token and MeetingSecret::token are uninterpreted functions into the token alphabet (a Diffie-Hellman token may or may not equal an invitation token)',
    'Ed25519 is ideal: verify(key, message, signature) is an uninterpreted predicate',
    'tokio::sync::Mutex::lock is uncontended (Ready)',
]

TOKENS = [S(lit=b'T%d' % i + b't' * 5) for i in range(1, 4)]
UIDS = [S(lit=b'I%d' % i + b'i' * 14) for i in range(1, 3)]
KEYS = [S(lit=b'K%d' % i + b'k' * 31) for i in range(1, 4)]
DERIVE = z3.Function('derive_token', A, A)
DHTOK = z3.Function('dh_token', A, A)
SIGOK = z3.Function('ed25519_verifies', A, A, A, z3.BoolSort())
KEYOK = z3.Function('key_is_wellformed', A, z3.BoolSort())


def shapes(tier):
    out = []
    for kind in ('OwnedInvite', 'Invite'):
        for other in ['none', 'allowed', 'invite', 'twin', 'dup']:
            if other == 'dup' and kind == 'OwnedInvite':
                continue        # create_invite draws a fresh id every time: an owned invitation cannot be registered twice
            out.append(dict(part='invite', kind=kind, other=other))
    for tt in ('AllowedPeer', 'OwnedInvite', 'Invite'):
        out.append(dict(part='handshake', token_type=tt))
    return out


def explore(ctx, shape, tier, report):
    return {'invite': explore_invite, 'handshake': explore_handshake}[shape['part']](ctx, shape, tier, report)


def ready(v):
    return Opaque('ready-future', v)


def may_fail(ctx, events, name, value, errname='Error'):
    """an awaited service call: Ok(value) or Err, as an explored choice"""
    if ctx.choose(2, 'await:' + name) == 0:
        events.append(('ok', name))
        return ready(ok(value))
    events.append(('err', name))
    return ready(err(Opaque(errname)))


def token_val(s):
    return s


def mk_owned(w, uid, with_room):
    return w.struct('OwnedInvite', id=uid, room=w.opt(S(lit=b'R' * 16) if with_room else None), authorisation=w.opt(S(lit=b'A' * 16) if with_room else None))


def mk_invite(w, uid, tag):
    return w.struct('Invite', invite_id=uid, application=w.atom(tag + '_app', None, 'str'), invite_sign=w.atom(tag + '_sign', None, 'bytes'))


def mk_allowed(w, tag, b64key, token_text):
    peer = w.struct('Peer', id=w.atom(tag + '_id', None, 'str'), verifying_key=b64key)
    return w.struct('AllowedPeer', peer=peer, meeting_token=token_text)


def install_invite_hooks(ctx, events):
    hooks = {}

    def by(ty, meth):
        f = ctx.method(ty, meth)
        return f.name

    def db_hook(name, value):
        def h(ctx_, args):
            return may_fail(ctx_, events, name, value)
        return h
    hooks[by('GraphDatabaseService', 'add_peer_nodes')] = db_hook('add_peer_nodes', UNIT)
    hooks[by('GraphDatabaseService', 'mutate')] = db_hook('mutate', Opaque('mutation-result'))
    hooks[by('OwnedInvite', 'delete')] = db_hook('OwnedInvite::delete', UNIT)
    hooks[by('Invite', 'delete')] = db_hook('Invite::delete', UNIT)
    hooks[by('OwnedInvite', 'list_valid')] = db_hook('OwnedInvite::list_valid', VecV([]))
    hooks[by('Invite', 'list')] = db_hook('Invite::list', VecV([]))

    def allowed_add(ctx_, args):
        # AllowedPeer::add(room_id, verifying_key, meeting_token, status, db)
        w = World(ctx_)
        ap = mk_allowed(w, 'new_peer', deref(args[1]), deref(args[2]))
        return may_fail(ctx_, events, 'AllowedPeer::add', ap)
    hooks[by('AllowedPeer', 'add')] = allowed_add

    def pub_key(ctx_, args):
        n = deref(args[0])
        return ok(S(atom=ctx_.fresh('peer_pub_key', A)))
    hooks[by('Peer', 'pub_key')] = pub_key

    def dh_token(ctx_, args):
        pk = deref(args[1])
        a = pk.data if isinstance(pk, Opaque) else pk.as_atom()
        t = S(atom=DHTOK(a), n=7)
        ctx_.add(z3.Or(*[t.atom == x.as_atom() for x in TOKENS]))
        events.append(('dh_token', t))
        return t
    hooks[by('MeetingSecret', 'token')] = dh_token

    def derive(ctx_, args):
        km = deref(args[1])
        t = S(atom=DERIVE(km.as_atom()), n=7)
        ctx_.add(z3.Or(*[t.atom == x.as_atom() for x in TOKENS]))
        return t
    hooks[by('MeetingSecret', 'derive_token')] = derive

    ctx.stubs['<Parameters as ParametersAdd>::add'] = lambda ctx_, args, ci, dt: ok(UNIT)
    ctx.call_hooks.update(hooks)
    return hooks


def explore_invite(ctx, shape, tier, report):
    events = []
    hooks = install_invite_hooks(ctx, events)
    ia = ctx.method('PeerManager', 'invite_accepted')
    gtt = ctx.method('PeerManager', 'get_token_type')
    kind, other = shape['kind'], shape['other']
    ctx.stubs['bincode::deserialize'] = lambda ctx_, args, ci, dt: ok(Opaque('public-key', deref(args[0]).as_atom()))

    def path(ctx):
        w = World(ctx)
        del events[:]
        uid = UIDS[0]
        with_room = bool(ctx.choose(2, 'default-room')) if kind == 'OwnedInvite' else False
        inv = mk_owned(w, uid, with_room) if kind == 'OwnedInvite' else mk_invite(w, uid, 'inv')
        variants = [v[0] for v in w.src.enum_variants('TokenType')]
        tt = Enum('TokenType', variants.index(kind), kind, [Cell(inv)])
        itok = S(atom=DERIVE(uid.as_atom()), n=7)
        ctx.add(z3.Or(*[itok.atom == x.as_atom() for x in TOKENS]))
        table = [[itok, Cell(VecV([Cell(clone_val(tt))]))]]
        lst = deref(table[0][1].v).elems
        if other in ('allowed', 'invite'):
            # an unrelated entry under another token (two different invitations / peers share a 7-byte token only by collision: not constructible, not modelled)
            otok = w.atom('other_token', TOKENS, 'bytes', n=7)
            ctx.assume(znot(seq(otok, itok)))
            if other == 'allowed':
                ap = mk_allowed(w, 'old_peer', w.atom('old_peer_key_b64', None, 'str'), w.atom('ap_token', None, 'str'))
                oe = Enum('TokenType', variants.index('AllowedPeer'), 'AllowedPeer', [Cell(ap)])
            else:
                oe = Enum('TokenType', variants.index('Invite'), 'Invite', [Cell(mk_invite(w, UIDS[1], 'inv2'))])
            table.append([otok, Cell(VecV([Cell(oe)]))])
        elif other == 'twin':
            # the owner accepted its own invitation: [OwnedInvite(x), Invite(x)] under the one token (create_invite, then accept_invite)
            if kind == 'OwnedInvite':
                lst.append(Cell(Enum('TokenType', variants.index('Invite'), 'Invite', [Cell(mk_invite(w, uid, 'twin'))])))
            else:
                lst.insert(0, Cell(Enum('TokenType', variants.index('OwnedInvite'), 'OwnedInvite', [Cell(mk_owned(w, uid, False))])))
        elif other == 'dup':
            # the same invitation registered twice (accept_invite called twice with the same bytes)
            lst.append(Cell(clone_val(tt)))
        fields = w.src.struct_fields('PeerManager')
        vals = {f: Opaque('pm-' + f) for f in fields}
        vals.update(private_room_id=S(lit=b'P' * 16), allowed_token=MapV(table), allowed_peers=VecV([]), owned_invites=VecV([]), invites=VecV([]),
                    services=Struct('DiscretServices', [Cell(Opaque('svc-' + f)) for f in w.src.struct_fields('DiscretServices')]),
                    meeting_secret=Opaque('meeting-secret'))
        pm = Cell(w.struct('PeerManager', **vals))
        peer_key = w.atom('peer_key', KEYS, 'bytes', n=33)
        peer = w.node(id=w.atom('peer_node_id', None, 'uid', n=16), room_id=None, cdate=w.i64('pc'), mdate=w.i64('pm'), entity=S(lit='sys.Peer'), author=peer_key,
                      json=w.atom('peer_json', None, 'str'))
        info = dict(part='invite', shape=shape, events=events, with_room=with_room)
        try:
            co = ctx.exec_fn(ia, [Ref(pm, True), tt, peer])
            r = ctx.poll(co)
        except Panic as p:
            report.panic(ctx, w, p, info)
            return
        if not (isinstance(r, Enum) and r.vname == 'Ready'):
            raise Inconclusive('invite_accepted did not complete in one poll')
        res = r.fields[0].v
        okres = isinstance(res, Enum) and res.vname == 'Ok'
        report.path(okres)
        info['ok'] = okres
        if not okres:
            report.witness('rejected')
            return
        # afterwards: what does a connection presenting the invitation's token get?
        key = w.atom('second_key', KEYS, 'bytes', n=33)
        try:
            t2 = ctx.exec_fn(gtt, [Ref(pm), Ref(Cell(itok)), Ref(Cell(key))])
        except Panic as p:
            report.panic(ctx, w, p, info)
            return
        again = False
        if isinstance(t2, Enum) and t2.vname == 'Ok':
            got = t2.fields[0].v
            if got.vname == kind:
                gid = got.fields[0].v.fields[0].v
                again = s_eq(gid, uid)
        # ... and is an entry of the consumed kind for this invitation still registered (behind another entry of the token's list) ?
        tbl = deref(w.field(pm.v, 'PeerManager', 'allowed_token').v)
        for tk, tc in tbl.entries:
            for ec in deref(tc.v).elems:
                e = ec.v
                if e.vname == kind:
                    again = zor(zb(again), zand(seq(tk, itok), seq(e.fields[0].v.fields[0].v, uid)))
        if report.want_sample(True):
            ms = ctx.check_sat(True)
            if ms is not None:
                report.sample(scenario(ctx, ms, 'sample', info))
        m = ctx.check_sat(zb(again)) if again is not False else None
        if m is not None:
            info['problem'] = 'after the invitation was consumed, a connection presenting its token is typed as that invitation again'
            report.violation(ctx, m, 'invite-not-consumed', info)
            return
        report.witness('consumed')

    try:
        ctx.explore(path)
    finally:
        for k in hooks:
            ctx.call_hooks.pop(k, None)
        ctx.stubs.pop('bincode::deserialize', None)
        ctx.stubs.pop('<Parameters as ParametersAdd>::add', None)


def explore_handshake(ctx, shape, tier, report):
    events = []
    hooks = {}
    ttname = shape['token_type']
    ic = ctx.method('LocalPeerService', 'initialise_connection')
    state = {}

    def name_of(ty, meth):
        return ctx.method(ty, meth).name

    def random32(ctx_, args):
        c = S(atom=ctx_.fresh('challenge', A), n=32)
        state.setdefault('challenges', []).append(c)
        return c
    hooks[ctx.free_fn('security', 'random32').name] = random32

    def query(ctx_, args):
        q = args[1]
        events.append(('query', q))
        if ctx_.choose(2, 'identity-answer') == 1:
            events.append(('query-failed',))
            return ready(err(Opaque('Error::TimeOut')))
        return ready(ok(state['answer']))
    hooks[name_of('LocalPeerService', 'query')] = query

    def validate(ctx_, args):
        if ctx_.choose(2, 'Peer::validate') == 1:
            events.append(('peer-invalid',))
            return err(Opaque('Error::InvalidPeerNode'))
        return ok(UNIT)
    hooks[name_of('Peer', 'validate')] = validate

    def inv_hash(ctx_, args):
        return state['invite_hash']
    hooks[name_of('Invite', 'hash')] = inv_hash

    def invite_accepted(ctx_, args):
        events.append(('invite_accepted', args[1], args[2]))
        return ready(UNIT)
    hooks[name_of('PeerConnectionService', 'invite_accepted')] = invite_accepted

    def connected(ctx_, args):
        events.append(('connected', deref(args[1]), args[2]))
        return ready(UNIT)
    hooks[name_of('PeerConnectionService', 'connected')] = connected

    def send_event(ctx_, args):
        ev = args[1]
        if ctx_.choose(2, 'send_event') == 1:
            events.append(('event-failed', ev.vname))
            return ready(err(Opaque('Error::SendError')))
        events.append(('event', ev.vname))
        return ready(ok(UNIT))
    hooks[name_of('LocalPeerService', 'send_event')] = send_event

    def stub_import(ctx_, args, ci, dt):
        k = deref(args[0])
        if not ctx_.branch(KEYOK(k.as_atom())):
            return err(Opaque('security::Error::InvalidKeyType'))
        return ok(Opaque('verifying_key', k))

    def stub_verify(ctx_, args, ci, dt):
        k = deref(args[0]).data
        msg, sig = deref(args[1]), deref(args[2])
        c = SIGOK(k.as_atom(), msg.as_atom(), sig.as_atom())
        events.append(('verify', k, msg, sig))
        if ctx_.branch(c):
            return ok(UNIT)
        return err(Opaque('security::Error::InvalidSignature'))
    stubs = {'fn:import_verifying_key': stub_import, 'fn:security::import_verifying_key': stub_import, '<dyn VerifyingKey as VerifyingKey>::verify': stub_verify}

    def path(ctx):
        w = World(ctx)
        del events[:]
        state.clear()
        proof_key = w.atom('proof_key', KEYS, 'bytes', n=33)
        local_key = w.atom('local_key', KEYS, 'bytes', n=33)
        chall_sig = w.atom('chall_signature', None, 'bytes')
        peer = w.node(id=w.atom('peer_node_id', None, 'uid', n=16), room_id=None, cdate=w.i64('pc'), mdate=w.i64('pm'), entity=S(lit='sys.Peer'), author=proof_key,
                      json=w.atom('peer_json', None, 'str'))
        state['answer'] = w.struct('IdentityAnswer', peer=peer, chall_signature=chall_sig)
        variants = [v[0] for v in w.src.enum_variants('TokenType')]
        info = dict(part='handshake', shape=shape, events=events, proof_key=proof_key, local_key=local_key, chall_sig=chall_sig, state=state)
        if ttname == 'AllowedPeer':
            b64key = w.atom('expected_key_b64', None, 'str')
            inner = mk_allowed(w, 'allowed', b64key, w.atom('ap_token', None, 'str'))
            info['expected_b64'] = b64key
        elif ttname == 'OwnedInvite':
            inner = mk_owned(w, UIDS[0], False)
        else:
            inner = mk_invite(w, UIDS[0], 'inv')
            state['invite_hash'] = S(atom=ctx.fresh('invite_hash', A), n=32)
            info['invite_sign'] = deref(w.field(inner, 'Invite', 'invite_sign').v)
        tt = Enum('TokenType', variants.index(ttname), ttname, [Cell(inner)])
        bound = Cell(S(lit=b''))
        rk = Ref(Cell(Ref(Cell(Opaque('mutex', bound)))))
        ready_flag = Opaque('atomic', True)
        cr = Ref(Cell(Ref(Cell(ready_flag))))
        conn_id = S(lit=b'C' * 16)
        ci = w.struct('network::ConnectionInfo', endpoint_id=S(lit=b'E' * 16), remote_id=S(lit=b'F' * 16), conn_id=conn_id, meeting_token=TOKENS[0], peer_verifying_key=S(lit=b''))
        try:
            co = ctx.exec_fn(ic, [Ref(Cell(ci)), Ref(Cell(local_key)), tt, cr, Ref(Cell(Opaque('query-service'))), rk,
                                  Ref(Cell(Opaque('peer-connection-service'))), Ref(Cell(Opaque('event-sender')))])
            r = ctx.poll(co)
        except Panic as p:
            report.panic(ctx, w, p, info)
            return
        if not (isinstance(r, Enum) and r.vname == 'Ready'):
            raise Inconclusive('initialise_connection did not complete in one poll')
        res = r.fields[0].v
        info['result'] = 'Err' if res.vname == 'Err' else ('Ok(true)' if res.fields[0].v is True else 'Ok(false)' if res.fields[0].v is False else 'Ok(?)')
        info['bound'] = bound.v
        challenges = state.get('challenges', [])
        if len(challenges) != 1:
            raise Inconclusive('expected exactly one challenge to be drawn, saw %d' % len(challenges))
        challenge = challenges[0]
        info['challenge'] = challenge
        key_bound = znot(seq(bound.v, S(lit=b'')))
        effects = [e for e in events if e[0] in ('invite_accepted', 'connected', 'event')]
        info['effects'] = [e[0] + (':' + e[1] if e[0] == 'event' else '') for e in effects]
        trusted = bool(effects) or not (z3.is_false(z3.simplify(zb(key_bound))))
        report.path(trusted)
        report.want_sample(trusted)
        if True:        # few paths: every one of them is also run natively
            ms = ctx.check_sat(True)
            if ms is not None:
                report.sample(scenario(ctx, ms, 'sample', info))
        if not trusted:
            report.witness('rejected')
            return
        any_effect = zb(True) if effects else key_bound
        proved = SIGOK(proof_key.as_atom(), challenge.as_atom(), chall_sig.as_atom())
        conds = [('the identity answer does not verify against the challenge of this connection', proved)]
        if not z3.is_false(z3.simplify(zb(key_bound))):
            conds.append(('the key bound to the connection is not the key that answered the challenge', zor(znot(key_bound), seq(bound.v, proof_key))))
        for e in effects:
            if e[0] == 'connected':
                conds.append(('the peer reported connected is not the key that answered the challenge', seq(e[1], proof_key)))
        if ttname == 'AllowedPeer':
            from mirsym.models import B64_DEC, B64_OK
            a = info['expected_b64'].as_atom()
            conds.append(('the proven key is not the key expected for this meeting token', zand(B64_OK(a), proof_key.as_atom() == B64_DEC(a))))
        if ttname == 'Invite':
            conds.append(('the invitation is not signed by the key that answered the challenge',
                          SIGOK(proof_key.as_atom(), state['invite_hash'].as_atom(), info['invite_sign'].as_atom())))
        if any(e[0] == 'invite_accepted' for e in effects) and ttname == 'AllowedPeer':
            conds.append(('an invitation is consumed on a connection that used no invitation', z3.BoolVal(False)))
        for label, c in conds:
            m = ctx.check_sat(zand(any_effect, znot(c)))
            if m is not None:
                info['problem'] = label
                report.violation(ctx, m, 'handshake', info)
                return
        report.witness('trusted')

    ctx.call_hooks.update(hooks)
    ctx.stubs.update(stubs)
    try:
        ctx.explore(path)
    finally:
        for k in hooks:
            ctx.call_hooks.pop(k, None)
        for k in stubs:
            ctx.stubs.pop(k, None)


def scenario(ctx, m, kind, info):
    c = Concretizer(m)
    sh = info['shape']
    if info['part'] == 'handshake':
        return handshake_scenario(ctx, m, c, kind, info)
    sc = dict(kind='invite_consumption', property='C19', invite_kind=sh['kind'], other=sh['other'], with_room=bool(info.get('with_room')))
    if kind == 'panic':
        sc['expect'] = dict(result='panic')
        return sc
    sc['expect'] = dict(result='Ok' if info.get('ok') else 'Err')
    if kind == 'sample':
        return sc
    sc['expect']['typed_as_invite_again'] = True
    sc['what'] = 'PeerManager::invite_accepted(%s): %s' % (sh['kind'], info.get('problem'))
    sc['signature'] = '%s:%s%s' % (kind, sh['kind'], {'dup': ':registered-twice', 'twin': ':with-its-twin'}.get(sh['other'], ''))
    return sc


def handshake_scenario(ctx, m, c, kind, info):
    """the scenario carries relations (which checks hold), the native side builds real keys and signatures that realise them"""
    from mirsym.models import B64_DEC, B64_OK
    sh = info['shape']
    ev = info['events']

    def truth(t):
        return z3.is_true(m.eval(zb(t), model_completion=True))
    pk, st = info['proof_key'], info['state']
    sc = dict(kind='handshake', property='C19', token_type=sh['token_type'])
    sc['query_fails'] = any(e[0] == 'query-failed' for e in ev)
    sc['remote_key_wellformed'] = truth(KEYOK(pk.as_atom()))
    ch = info.get('challenge')
    sc['proof_valid'] = truth(SIGOK(pk.as_atom(), ch.as_atom(), info['chall_sig'].as_atom())) if ch is not None else False
    # only what the handler actually evaluated on this path is pinned; the rest gets honest defaults
    sc['peer_valid'] = not any(e[0] == 'peer-invalid' for e in ev)
    sc['local_is_remote'] = truth(seq(info['local_key'], pk))
    if sh['token_type'] == 'AllowedPeer':
        a = info['expected_b64'].as_atom()
        sc['expected_decodes'] = truth(B64_OK(a))
        sc['expected_matches'] = truth(zand(B64_OK(a), pk.as_atom() == B64_DEC(a)))
    if sh['token_type'] == 'Invite':
        sc['invite_signed_by_remote'] = truth(SIGOK(pk.as_atom(), st['invite_hash'].as_atom(), info['invite_sign'].as_atom()))
    sc['send_event_fails'] = any(e[0] == 'event-failed' for e in ev)
    bound = info.get('bound')
    exp = dict(result=info.get('result'), effects=sorted(set(info.get('effects', []))))
    exp['key_bound'] = (not truth(seq(bound, S(lit=b'')))) if bound is not None else False
    sc['expect'] = exp
    if kind == 'panic':
        sc['expect'] = dict(result='panic')
        return sc
    if kind == 'sample':
        return sc
    sc['what'] = 'LocalPeerService::initialise_connection(%s): trust effects %s although %s' % (sh['token_type'], exp['effects'] + (['key bound'] if exp['key_bound'] else []), info.get('problem'))
    sc['signature'] = 'handshake:%s:%s' % (sh['token_type'], info.get('problem'))
    return sc
