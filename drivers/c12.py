"""C12 — local acceptance and peer acceptance give the same verdict.
Relational query over the two real implementations on the same symbolic room state:
validate_entity_mutation (local)  vs  validate_node (remote) on the row the local path produced;
validate_deletion (local)         vs  validate_node_deletions / validate_edge_deletions on the tombstone it built."""
import itertools
import z3
from mirsym.interp import *
from mirsym.values import *
from mirsym.models import deref
from .lib import *
from .c01 import KEYS, ROOMS, ENTS, SPECS, SYS_ENTS, now_of, robust_now, all_dates, SHORTS

REQUIRED_WITNESSES = ['both-accept', 'both-refuse', 'deletion-both-accept', 'deletion-both-refuse']
BOUNDS = {
    'quick': 'room configurations as C01 quick; one written row in a room (new / update of own / update of foreign row, old row roomless / same room / other room, '
             'unknown rooms included), size below or above the limit; one node or reference deletion (own / foreign row); dates and flags symbolic',
    'thorough': 'as quick with the three room configurations of C01 thorough',
}
ASSUMPTIONS = [
    'restricted to rows in a room (room-less rows are never synchronised) and to non-system entities',
    'the peer holds the same room definition; the NodeToInsert a peer builds carries the previous room and author of the same stored row',
    'deletion: the date of the local check is the deletion date carried by the tombstone (same-date clause of the property)',
    'model validation (validate_json_for_entity) and the inline edge insertion check are outside this kernel',
]

# old: 0 none, 1 old row roomless, 2 old row in a room
MUT_SHAPES = [0, 1, 2]


def shapes(tier):
    out = []
    for i in range(len(SPECS[tier])):
        for o in MUT_SHAPES:
            out.append(dict(part='mutation', spec=i, old=o))
        for kind in ('node', 'edge'):
            out.append(dict(part='deletion', spec=i, kind=kind))
    return out


def explore_mutation(ctx, shape, tier, report):
    spec1, spec2 = SPECS[tier][shape['spec']]
    vem = ctx.method('RoomAuthorisations', 'validate_entity_mutation')
    vn = ctx.method('RoomAuthorisations', 'validate_node')
    old = shape['old']

    def path(ctx):
        w = World(ctx)
        ctx.node_size_list = []
        caller = w.atom('caller', KEYS, 'bytes', n=33)
        r1, ev1 = build_room(w, ROOMS[0], spec1, KEYS, ENTS, 'r1')
        r2, ev2 = build_room(w, ROOMS[1], spec2, KEYS, ENTS, 'r2')
        rooms_ev = [ev1, ev2]
        rooms = MapV([[ROOMS[0], r1], [ROOMS[1], r2]])
        max_size = w.u64('max_node_size')
        ra = w.struct('RoomAuthorisations', signing_key=w.signing_key(caller), rooms=rooms, max_node_size=max_size)
        date = w.i64('op_date')
        entity = w.atom('entity', None, 'str')
        for x in SYS_ENTS:
            ctx.add(znot(seq(entity, S(lit=x))))
        nid = w.atom('id', None, 'uid', n=16)
        room = w.atom('room', ROOMS, 'uid', n=16)
        short = w.atom('short', None, 'str')
        json = w.atom('json', None, 'str')
        cdate = w.i64('cdate')
        # the row as the local path holds it after sign_all(): author = caller, mdate = date
        node = w.node(id=nid, room_id=room, cdate=cdate, mdate=date, entity=short, author=caller, json=json)
        size = w.u64('size')
        ctx.node_size_list.append((node, size))
        old_author = old_room = None
        old_node = None
        old_mdate = None
        if old:
            old_author = w.atom('old_author', KEYS, 'bytes', n=33)
            old_room = w.atom('old_room', ROOMS, 'uid', n=16) if old == 2 else None
            old_mdate = w.i64('old_mdate')
            old_node = w.node(id=nid, room_id=old_room, cdate=cdate, mdate=old_mdate, entity=short, author=old_author)
        ntm = w.struct('NodeToMutate', id=nid, date=date, entity=entity, room_id=some(room), node=some(node), node_fts_str=none(),
                       old_node=w.opt(old_node), old_fts_str=none(), enable_full_text=True)
        ie = w.struct('InsertEntity', name=S(lit='x'), node_to_mutate=ntm, edge_deletions=VecV(), edge_deletions_log=VecV(), edge_insertions=VecV(),
                      sub_nodes=MapV())
        # what a peer holding the same previous version receives
        node2 = clone_val(node)
        ctx.node_size_list.append((node2, size))
        nti = w.struct('NodeToInsert', id=nid, node=some(node2), entity_name=some(entity), index=True, old_room_id=w.opt(old_room),
                       old_mdate=old_mdate if old_mdate is not None else w.i64('old_mdate2'), old_verifying_key=w.opt(old_author), old_local_id=none(), old_fts_str=none(), node_fts_str=none())
        info = dict(part='mutation', rooms=rooms_ev, caller=caller, date=date, entity=entity, room=room, old=old, old_author=old_author,
                    old_room=old_room, size=size, max_size=max_size, nid=nid, old_mdate=old_mdate)
        try:
            res = ctx.exec_fn(vem, [Ref(Cell(ra)), Ref(Cell(ie), True), Ref(Cell(caller))])
            remote = ctx.call(vn, [Ref(Cell(ra)), Ref(Cell(nti))])
        except Panic as p:
            report.panic(ctx, w, p, info)
            return
        local_ok = res.variant == 0
        report.path(local_ok)
        remote = zb(remote)
        agree = remote if local_ok else znot(remote)
        m_agree = ctx.check_sat(agree)
        if m_agree is not None:
            report.witness('both-accept' if local_ok else 'both-refuse')
            if report.want_sample(local_ok):
                sc = scenario_mutation(ctx, m_agree, 'sample', info)
                sc['expect'] = dict(local='Ok' if local_ok else 'Err', remote=local_ok)
                report.sample(sc)
        m = ctx.check_sat(znot(agree))
        if m is not None:
            info['local_ok'] = local_ok
            report.violation(ctx, m, 'local-remote-disagree', info)

    ctx.explore(path)


def scenario_mutation(ctx, m, kind, info):
    c = Concretizer(m)
    rel = size_relation(m, info['size'], info['max_size'])
    over = rel == 'gt'
    room = c.atom(info['room'], 'room')
    caller = c.atom(info['caller'], 'key')
    node = dict(room=room, cdate=0, mdate=c.int(info['date']), short='9.9', author=caller, json='{}')
    oldd = None
    if info['old']:
        oldd = dict(room=None if info['old_room'] is None else c.atom(info['old_room'], 'room'), cdate=0, mdate=c.int(info['old_mdate']), short='9.9',
                    author=c.atom(info['old_author'], 'key'))
    sc = dict(kind='c12_mutation', property='C12', rooms=[c.room(ev) for ev in info['rooms']], caller=caller, size_rel=rel,
              tree=dict(id=c.atom(info['nid'], 'uid'), date=c.int(info['date']), entity=c.atom(info['entity'], 'ent'), room=room, node=node, old=oldd,
                        dels=[], subs={}),
              id=c.atom(info['nid'], 'uid'), node=node, entity_name=c.atom(info['entity'], 'ent'),
              old_room=None if not info['old'] or info['old_room'] is None else c.atom(info['old_room'], 'room'),
              old_key=None if not info['old'] else c.atom(info['old_author'], 'key'),
              old_mdate=c.int(info['old_mdate']) if info['old'] else 0)
    if kind == 'sample':
        return sc
    if kind == 'panic':
        sc['expect'] = dict(result='panic')
        return sc
    lo = info['local_ok']
    sc['expect'] = dict(local='Ok' if lo else 'Err', remote=not lo)
    role = []
    if info['old'] == 2 and not z3.is_true(m.eval(seq(info['old_room'], info['room']), model_completion=True)):
        role.append('room-change')
    if rel != 'lt':
        role.append('size-' + rel)
    if info['old'] and not z3.is_true(m.eval(seq(info['old_author'], info['caller']), model_completion=True)):
        role.append('foreign-row')
    sc['what'] = 'local path %s but a peer %s the same write (%s)' % ('accepts' if lo else 'refuses', 'refuses' if lo else 'accepts', ','.join(role))
    sc['signature'] = 'local-remote-disagree:mutation:%s:%s' % ('local-accepts' if lo else 'local-refuses', '+'.join(role))
    return sc


def explore_deletion(ctx, shape, tier, report):
    spec1, spec2 = SPECS[tier][shape['spec']]
    kind = shape['kind']
    vd = ctx.method('RoomAuthorisations', 'validate_deletion')
    vr = ctx.method('RoomAuthorisations', 'validate_node_deletions' if kind == 'node' else 'validate_edge_deletions')
    tname = 'NodeDeletionEntry' if kind == 'node' else 'EdgeDeletionEntry'

    def path(ctx):
        w = World(ctx)
        caller = w.atom('caller', KEYS, 'bytes', n=33)
        r1, ev1 = build_room(w, ROOMS[0], spec1, KEYS, ENTS, 'r1')
        r2, ev2 = build_room(w, ROOMS[1], spec2, KEYS, ENTS, 'r2')
        rooms_ev = [ev1, ev2]
        rooms = MapV([[ROOMS[0], r1], [ROOMS[1], r2]])
        ra = w.struct('RoomAuthorisations', signing_key=w.signing_key(caller), rooms=rooms, max_node_size=w.u64('max_node_size'))
        name = w.atom('name', None, 'str')
        short = w.atom('short', None, 'str')
        for long_, short_ in SHORTS.items():
            ctx.add(znot(seq(name, S(lit=long_))))
        room = w.atom('room', ROOMS, 'uid', n=16)
        author = w.atom('author', KEYS, 'bytes', n=33)
        date = w.i64('build_date')
        rid = w.atom('id', None, 'uid', n=16)
        if kind == 'node':
            node = w.node(id=rid, room_id=room, cdate=w.i64('cdate'), mdate=w.i64('mdate'), entity=short, author=author)
            dq = w.deletion_query(nodes=VecV([Cell(w.struct('NodeDelete', node=node, name=name, date=date))]), node_log=VecV(),
                          updated_nodes=VecV(), edges=VecV(), edge_log=VecV())
        else:
            edge = w.edge(src=rid, src_entity=short, label=w.atom('label', None, 'str'), dest=w.atom('dest', None, 'uid', n=16), cdate=w.i64('cdate'), author=author)
            dq = w.deletion_query(nodes=VecV(), node_log=VecV(), updated_nodes=VecV(),
                          edges=VecV([Cell(w.struct('EdgeDelete', edge=edge, src_name=name, room_id=some(room), date=date))]), edge_log=VecV())
        info = dict(part='deletion', kind=kind, rooms=rooms_ev, caller=caller, name=name, room=room, author=author, date=date, rid=rid)
        try:
            res = ctx.exec_fn(vd, [Ref(Cell(ra)), Ref(Cell(dq), True)])
        except Panic as p:
            report.panic(ctx, w, p, info)
            return
        now = now_of(ctx)
        info['now'] = now
        # same-date clause: the local check date is the date carried by the tombstone
        ctx.assume(date.z() == now.z())
        local_ok = res.variant == 0
        report.path(local_ok)
        # the tombstone a peer receives: the one the local path built if it accepted, otherwise the one it would have built
        if local_ok:
            log = deref(w.field(dq, 'DeletionQuery', 'node_log' if kind == 'node' else 'edge_log').v).elems
            if len(log) != 1:
                report.violation(ctx, ctx.check_sat(True), 'tombstone-missing', info)
                return
            entry = clone_val(log[0].v)
        else:
            if kind == 'node':
                entry = w.struct('NodeDeletionEntry', room_id=room, id=rid, entity=short, mdate=w.i64('mdate2'), deletion_date=now, verifying_key=caller,
                                 signature=S(lit=b's'), entity_name=none())
            else:
                entry = w.struct('EdgeDeletionEntry', room_id=room, src=rid, src_entity=short, dest=w.atom('dest2', None, 'uid', n=16), label=w.atom('l2', None, 'str'),
                                 cdate=w.i64('cdate2'), deletion_date=now, verifying_key=caller, signature=S(lit=b's'), entity_name=none())
        # the receiving side fills entity_name from its data model and the stored author from its copy of the row
        w.field(entry, tname, 'entity_name').v = some(name)
        if kind == 'node':
            arg = MapV([[rid, Cell(tup(entry, some(author)))]])
        else:
            arg = VecV([Cell(tup(entry, some(author)))])
        try:
            out = ctx.exec_fn(vr, [Ref(Cell(ra)), arg])
        except Panic as p:
            report.panic(ctx, w, p, info)
            return
        remote_ok = len(out.elems) == 1
        dates = all_dates(rooms_ev)
        if remote_ok == local_ok:
            report.witness('deletion-both-accept' if local_ok else 'deletion-both-refuse')
            if report.want_sample(local_ok):
                ms = ctx.check_sat(robust_now(ctx, now, dates))
                if ms is not None:
                    sc = scenario_deletion(ctx, ms, 'sample', info)
                    sc['expect'] = dict(local='Ok' if local_ok else 'Err', remote=remote_ok)
                    report.sample(sc)
            return
        info['local_ok'] = local_ok
        m = ctx.check_sat(robust_now(ctx, now, dates)) or ctx.check_sat(True)
        report.violation(ctx, m, 'local-remote-disagree', info)

    ctx.explore(path)


def scenario_deletion(ctx, m, kind, info):
    c = Concretizer(m)
    sc = dict(kind='c12_deletion', property='C12', which=info['kind'], rooms=[c.room(ev) for ev in info['rooms']], caller=c.atom(info['caller'], 'key'),
              name=c.atom(info['name'], 'ent'), room=c.atom(info['room'], 'room'), author=c.atom(info['author'], 'key'), id=c.atom(info['rid'], 'uid'),
              model_now=c.int(info['now']))
    if kind == 'sample':
        return sc
    if kind == 'panic':
        sc['expect'] = dict(result='panic')
        return sc
    lo = info.get('local_ok')
    own = z3.is_true(m.eval(seq(info['author'], info['caller']), model_completion=True))
    sc['expect'] = dict(local='Ok' if lo else 'Err', remote=not lo)
    sc['what'] = 'deletion of %s %s row: local path %s, peer %s' % ('an own' if own else 'a foreign', info['kind'], 'accepts' if lo else 'refuses', 'refuses' if lo else 'accepts')
    sc['signature'] = '%s:deletion:%s:%s:%s' % (kind, info['kind'], 'own' if own else 'foreign', 'local-accepts' if lo else 'local-refuses')
    return sc


def explore(ctx, shape, tier, report):
    return {'mutation': explore_mutation, 'deletion': explore_deletion}[shape['part']](ctx, shape, tier, report)


def scenario(ctx, m, kind, info):
    return {'mutation': scenario_mutation, 'deletion': scenario_deletion}[info['part']](ctx, m, kind, info)
