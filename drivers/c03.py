"""C03 — synchronisation converges (version-selection kernel only).
Node::filter_existing decides, for every row identifier a peer announces, whether the announced version replaces the
stored one.  Convergence of a row that was updated concurrently needs this decision to be a strict total order on
versions (modification date, signature) that does not depend on who is asking: the real function is executed from MIR with
the SQL cursor replaced by symbolic rows, two and three times with the roles of the versions exchanged, and z3 decides
 - same version  => nothing is requested (a further synchronisation transfers no row),
 - different versions of a row => exactly one direction requests a transfer (one winner, nobody keeps his own),
 - a over b and b over c => a over c (the winner does not depend on the order of arrival),
 - an identifier that is not stored is always requested; a stored row that is not announced is never touched."""
import z3
from mirsym.interp import *
from mirsym.values import *
from mirsym.models import deref, A
import mirsym.models as MM
from .lib import *

REQUIRED_WITNESSES = ['requested', 'not-requested', 'winner-a', 'winner-b', 'same-version']
BOUNDS = {
    'quick': 'one announced identifier with a stored counterpart (symbolic 64-bit dates, symbolic signatures) plus an optional second announced identifier that is not stored; '
             'pairs (2 executions) and triples (3 executions) of versions of one row; every HashSet iteration order',
    'thorough': 'same, plus two stored rows announced together',
}
ASSUMPTIONS = [
    'the SQL cursor (prepare / query / rows.next / row.get) is replaced by the rows the driver supplies: that SELECT ... WHERE id IN (...) returns exactly the stored rows with '
    'these ids is SQLite behaviour outside the claim',
    'Vec<u8> ordering (lexicographic) is abstracted by an injective rank function into 64-bit integers: a total order on signatures',
    'only version selection is covered: fetching, validating and writing the selected rows, deletions and the daily-log comparison that decides which days are exchanged are outside',
]

IDS = [S(lit=b'N%d' % i + b'n' * 14) for i in range(1, 4)]
RANK = z3.Function('rank_of_bytes', A, z3.BitVecSort(64))


def shapes(tier):
    out = [dict(part='single', extra=False), dict(part='single', extra=True), dict(part='pair'), dict(part='triple'), dict(part='eq_impl')]
    if tier == 'thorough':
        out.append(dict(part='two_rows'))
    return out


def explore(ctx, shape, tier, report):
    if shape['part'] == 'eq_impl':
        return explore_eq_impl(ctx, shape, tier, report)
    return explore_filter(ctx, shape, tier, report)


class Version:
    def __init__(self, w, tag):
        self.mdate = w.i64(tag + '_mdate')
        self.sig = w.atom(tag + '_sig', None, 'bytes')
        self.tag = tag

    def same(self, o):
        return zand(self.mdate.z() == o.mdate.z(), seq(self.sig, o.sig))

    def newer_than(self, o):
        """the documented rule, used only to label witnesses (the obligations do not depend on it)"""
        return zor(self.mdate.z() > o.mdate.z(), zand(self.mdate.z() == o.mdate.z(), z3.UGT(RANK(self.sig.as_atom()), RANK(o.sig.as_atom()))))


def install(ctx, state):
    """driver-supplied SQL cursor and the byte-string order"""
    stubs = {}

    def prepare(ctx_, args, ci, dt):
        # the cursor serves the table the SQL text names; a statement over any other table than the driver knows is not modelled
        import re as _re
        sql = deref(args[1])
        text = sql.lit.decode() if isinstance(sql, S) and sql.lit is not None else ''
        m = _re.search(r'FROM\s+(\w+)', text, _re.I)
        table = m.group(1) if m else '_node'
        state.setdefault('statements', []).append(text)
        if table != '_node' and table not in state.get('tables', {}):
            raise Unsupported('SQL over table %s is not modelled by this driver: %s' % (table, ' '.join(text.split())[:120]))
        cols = None
        if table != '_node':
            mm = _re.search(r'SELECT\s+(.*?)\s+FROM', text, _re.I | _re.S)
            cols = [c.strip() for c in mm.group(1).split(',')] if mm else None
            if cols is None:
                raise Unsupported('cannot read the column list of: %s' % text[:120])
        return ok(Opaque('statement', dict(table=table, cols=cols)))

    def query(ctx_, args, ci, dt):
        st = deref(args[0]).data or dict(table='_node', cols=None)
        if st['table'] == '_node':
            rows = state['rows']
        else:
            rows = []
            for r in state['tables'][st['table']]:
                missing = [c for c in st['cols'] if c not in r]
                if missing:
                    raise Unsupported('column %s of %s is not modelled' % (missing[0], st['table']))
                rows.append([r[c] for c in st['cols']])
        return ok(Opaque('rows', dict(i=0, rows=rows)))

    def rows_next(ctx_, args, ci, dt):
        r = deref(args[0])
        rows = r.data['rows']
        if r.data['i'] >= len(rows):
            return ok(none())
        row = rows[r.data['i']]
        r.data['i'] += 1
        return ok(some(Ref(Cell(Opaque('row', row)))))

    def row_get(ctx_, args, ci, dt):
        row = deref(args[0]).data
        idx = ctx_.concretize_int(args[1], 'column')
        return ok(clone_val(row[idx]))

    def vec_le(ctx_, args, ci, dt):
        a, b = deref(args[0]), deref(args[1])
        ra, rb = RANK(a.as_atom()), RANK(b.as_atom())
        ctx_.add((ra == rb) == zb(s_eq(a, b)))
        return z3.ULE(ra, rb)

    def vec_lt(ctx_, args, ci, dt):
        a, b = deref(args[0]), deref(args[1])
        ra, rb = RANK(a.as_atom()), RANK(b.as_atom())
        ctx_.add((ra == rb) == zb(s_eq(a, b)))
        return z3.ULT(ra, rb)

    def vec_ge(ctx_, args, ci, dt):
        return vec_le(ctx_, [args[1], args[0]], ci, dt)

    def vec_gt(ctx_, args, ci, dt):
        return vec_lt(ctx_, [args[1], args[0]], ci, dt)

    def extract_json(ctx_, args, ci, dt):
        return ok(UNIT)

    def from_str(ctx_, args, ci, dt):
        return ok(Opaque('json-value'))

    def params(ctx_, args, ci, dt):
        return Opaque('params')

    def hs_take(ctx_, args, ci, dt):
        m = deref(args[0])
        i = MM.map_find(ctx_, m, deref(args[1]))
        if i < 0:
            return none()
        return some(m.entries.pop(i)[0])
    stubs['Connection::prepare'] = prepare
    stubs['Statement::query'] = query
    stubs['Rows::next'] = rows_next
    stubs['Row::get'] = row_get
    stubs['<Vec as PartialOrd>::le'] = vec_le
    stubs['<Vec as PartialOrd>::lt'] = vec_lt
    stubs['<Vec as PartialOrd>::ge'] = vec_ge
    stubs['<Vec as PartialOrd>::gt'] = vec_gt
    stubs['fn:extract_json'] = extract_json
    stubs['serde_json::from_str'] = from_str
    stubs['from_str'] = from_str
    stubs['params_from_iter'] = params
    stubs['rusqlite::params_from_iter'] = params
    stubs['HashSet::take'] = hs_take
    ctx.stubs.update(stubs)
    return stubs


def identifier(w, nid, v):
    return w.struct('NodeIdentifier', id=nid, mdate=v.mdate, signature=v.sig)


def stored_row(w, nid, v, tag):
    """columns: id, room_id, cdate, mdate, _entity, _json, _binary, verifying_key, _signature, rowid"""
    return [nid, some(S(lit=b'R' * 16)), w.i64(tag + '_cdate'), v.mdate, S(lit='E'), some(w.atom(tag + '_json', None, 'str')), none(),
            w.atom(tag + '_author', None, 'bytes', n=33), v.sig, some(w.i64(tag + '_rowid'))]


def run_filter(ctx, w, fe, state, announced, stored):
    """one execution of the real function; returns (result kind, ids requested as list of (id, old_local_id is Some))"""
    state['rows'] = stored
    state.setdefault('tables', {'_node_deletion_log': []})      # no tombstones in the C03 scenarios (C11 supplies them)
    ids = MapV([[x, Cell(UNIT)] for x in announced], is_set=True)
    res = ctx.exec_fn(fe, [Ref(Cell(ids), True), Ref(Cell(Opaque('connection')))])
    if not (isinstance(res, Enum) and res.vname == 'Ok'):
        return None, ids
    out = []
    for c in res.fields[0].v.elems:
        n = c.v
        out.append((deref(w.field(n, 'NodeToInsert', 'id').v), deref(w.field(n, 'NodeToInsert', 'old_local_id').v)))
    return out, ids


def requested(out, nid):
    return any(o[0].lit == nid.lit for o in out)


def explore_filter(ctx, shape, tier, report):
    state = {}
    stubs = install(ctx, state)
    fe = ctx.method('Node', 'filter_existing')
    part = shape['part']
    MM.KEY_EQ_FIELDS['NodeIdentifier'] = [0]
    ctx.map_order = 'all'

    def path(ctx):
        w = World(ctx)
        info = dict(part=part, shape=shape)
        try:
            if part == 'single':
                a, b = Version(w, 'a'), Version(w, 'b')
                ann = [identifier(w, IDS[0], a)]
                if shape['extra']:
                    ann.append(identifier(w, IDS[1], Version(w, 'x')))
                out, left = run_filter(ctx, w, fe, state, ann, [stored_row(w, IDS[0], b, 'st')])
                if out is None:
                    raise Inconclusive('filter_existing failed although the cursor does not')
                req = requested(out, IDS[0])
                info.update(a=a, b=b, runs=[dict(announced='a', stored='b', requested=req)])
                report.path(req)
                report.witness('requested' if req else 'not-requested')
                if report.want_sample(req):
                    ms = ctx.check_sat(True)
                    if ms is not None:
                        report.sample(scenario(ctx, ms, 'sample', info))
                conds = []
                if req:
                    conds.append(('a version identical to the stored one is requested again', znot(a.same(b))))
                    hit = [o for o in out if o[0].lit == IDS[0].lit]
                    if len(hit) != 1:
                        conds.append(('the same row is requested %d times' % len(hit), z3.BoolVal(False)))
                    elif not (isinstance(hit[0][1], Enum) and hit[0][1].vname == 'Some'):
                        conds.append(('the replacement does not name the stored row it replaces', z3.BoolVal(False)))
                if shape['extra'] and not requested(out, IDS[1]):
                    conds.append(('an announced row that is not stored is not requested', z3.BoolVal(False)))
                if left.entries:
                    conds.append(('the announced set is not consumed', z3.BoolVal(False)))
                check(ctx, report, info, conds)
                return
            if part == 'two_rows':
                a, b, c, d = Version(w, 'a'), Version(w, 'b'), Version(w, 'c'), Version(w, 'd')
                out, left = run_filter(ctx, w, fe, state, [identifier(w, IDS[0], a), identifier(w, IDS[1], c)],
                                       [stored_row(w, IDS[0], b, 's1'), stored_row(w, IDS[1], d, 's2')])
                out1, _ = run_filter(ctx, w, fe, state, [identifier(w, IDS[0], a)], [stored_row(w, IDS[0], b, 's1')])
                if out is None or out1 is None:
                    raise Inconclusive('filter_existing failed although the cursor does not')
                r2, r1 = requested(out, IDS[0]), requested(out1, IDS[0])
                info.update(a=a, b=b, runs=[dict(announced='a', stored='b', requested=r1)])
                report.path(r2)
                report.witness('requested' if r2 else 'not-requested')
                check(ctx, report, info, [('the decision for a row depends on the other rows of the batch', z3.BoolVal(r1 == r2))])
                return
            vs = [Version(w, t) for t in ('a', 'b', 'c')[:2 if part == 'pair' else 3]]
            info.update(a=vs[0], b=vs[1], c=vs[2] if len(vs) > 2 else None)
            runs = {}
            order = [(0, 1), (1, 0)] if part == 'pair' else [(0, 1), (1, 2), (0, 2)]
            for i, j in order:
                out, _ = run_filter(ctx, w, fe, state, [identifier(w, IDS[0], vs[i])], [stored_row(w, IDS[0], vs[j], 'st%d%d' % (i, j))])
                if out is None:
                    raise Inconclusive('filter_existing failed although the cursor does not')
                runs[(i, j)] = requested(out, IDS[0])
            info['runs'] = [dict(announced='abc'[i], stored='abc'[j], requested=r) for (i, j), r in runs.items()]
            report.path(any(runs.values()))
            if report.want_sample(any(runs.values())):
                ms = ctx.check_sat(True)
                if ms is not None:
                    report.sample(scenario(ctx, ms, 'sample', info))
            conds = []
            if part == 'pair':
                ab, ba = runs[(0, 1)], runs[(1, 0)]
                if ab and ba:
                    conds.append(('two versions of a row each replace the other: the peers swap versions for ever', z3.BoolVal(False)))
                if not ab and not ba:
                    conds.append(('two different versions of a row: neither replaces the other, each peer keeps its own', vs[0].same(vs[1])))
                    report.witness('same-version')
                if ab != ba:
                    report.witness('winner-a' if ab else 'winner-b')
            else:
                if runs[(0, 1)] and runs[(1, 2)] and not runs[(0, 2)]:
                    conds.append(('a replaces b and b replaces c but a does not replace c: the winner depends on the order of arrival', z3.BoolVal(False)))
                report.witness('winner-a' if runs[(0, 2)] else 'winner-b')
            check(ctx, report, info, conds)
        except Panic as p:
            report.panic(ctx, w, p, info)

    try:
        ctx.explore(path)
    finally:
        ctx.map_order = 'fixed'
        MM.KEY_EQ_FIELDS.pop('NodeIdentifier', None)
        for k in stubs:
            ctx.stubs.pop(k, None)


def check(ctx, report, info, conds):
    for label, c in conds:
        m = ctx.check_sat(znot(c))
        if m is not None:
            info['problem'] = label
            report.violation(ctx, m, 'version-selection', info)
            return True
    return False


def explore_eq_impl(ctx, shape, tier, report):
    """the set abstraction compares NodeIdentifier by id only: checked against the real PartialEq impl"""
    eqf = ctx.method('NodeIdentifier', 'eq', trait='PartialEq')

    def path(ctx):
        w = World(ctx)
        x = w.struct('NodeIdentifier', id=w.atom('x_id', IDS, 'uid', n=16), mdate=w.i64('x_m'), signature=w.atom('x_s', None, 'bytes'))
        y = w.struct('NodeIdentifier', id=w.atom('y_id', IDS, 'uid', n=16), mdate=w.i64('y_m'), signature=w.atom('y_s', None, 'bytes'))
        r = ctx.exec_fn(eqf, [Ref(Cell(x)), Ref(Cell(y))])
        same_id = seq(deref(x.fields[0].v), deref(y.fields[0].v))
        report.path(True)
        m = ctx.check_sat(zb(r) != same_id)
        if m is not None:
            raise Inconclusive('NodeIdentifier equality is no longer "same id": the set abstraction of this driver does not apply')
        report.witness('requested')

    ctx.explore(path)


def scenario(ctx, m, kind, info):
    c = Concretizer(m)

    def ver(v):
        if v is None:
            return None
        r = m.eval(RANK(v.sig.as_atom()), model_completion=True).as_long()
        return dict(mdate=c.int(v.mdate), sig_rank=r)
    sc = dict(kind='version_selection', property='C03', versions={k: ver(info.get(k)) for k in ('a', 'b', 'c') if info.get(k) is not None},
              runs=[dict(announced=r['announced'], stored=r['stored']) for r in info.get('runs', [])], extra=bool(info['shape'].get('extra')))
    if kind == 'panic':
        sc['expect'] = dict(result='panic')
        return sc
    sc['expect'] = dict(requested=[r['requested'] for r in info.get('runs', [])])
    if kind == 'sample':
        return sc
    sc['what'] = 'Node::filter_existing: %s' % info.get('problem')
    sc['signature'] = 'version-selection:%s' % info.get('problem')
    return sc
