"""C15 — changing the data model never loses data and a refused change changes nothing.
Entry points executed from MIR: DataModel::update_with, Entity::update, Entity::add_field / insert_field,
DataModel::insert, on models built the way parse_internal builds them (real id assignment), with the
iteration order of every HashMap a symbolic choice."""
import copy
import itertools
import z3
from mirsym.interp import *
from mirsym.values import *
from mirsym.models import deref, key_eq
from .lib import *

REQUIRED_WITNESSES = ['accepted', 'refused']
BOUNDS = {
    'quick': 'old model: <= 2 namespaces, <= 2 entities, <= 3 scalar fields (required / nullable / default, deprecated or not); new version = old plus one edit from: '
             'add 1-2 fields (nullable, default, or missing default), add field in the middle, remove field, retype field, nullability and deprecation flips, '
             'add / insert / remove entity, add namespace, valid change on one entity with an invalid change on another; every HashMap iteration order',
    'thorough': 'as quick with 3 fields added at once and edits combined pairwise',
}
ASSUMPTIONS = [
    'models are built as parse_internal builds them (Entity::add_field in declaration order, DataModel::insert in declaration order, namespace id offset 1); '
    'the pest parser, index definitions and check_consistency are outside the kernel',
    'HashMap iteration order is an arbitrary permutation chosen independently at every iteration',
]

# field = (name, type, mode, deprecated)   mode in req / nullable / default
F = lambda n, t='String', m='req', d=False: (n, t, m, d)
BASE = [('ns', [('A', False, [F('f1'), F('f2', 'Integer', 'nullable'), F('f3', 'Boolean', 'default')]),
                ('B', False, [F('g1')])])]
BASE2 = [('ns', [('A', False, [F('f1'), F('f2', 'Integer', 'nullable')])]), ('zz', [('C', False, [F('h1')])])]


def edit(base, fn):
    m = copy.deepcopy(base)
    fn(m)
    return m


def ent(m, ns, name):
    for n, ents in m:
        if n == ns:
            for e in ents:
                if e[0] == name:
                    return e
    raise KeyError(name)


def set_ent(m, ns, name, new):
    for n, ents in m:
        if n == ns:
            for i, e in enumerate(ents):
                if e[0] == name:
                    ents[i] = new


EDITS = {
    'same': lambda m: None,
    'add1-nullable': lambda m: ent(m, 'ns', 'A')[2].append(F('f4', 'String', 'nullable')),
    'add1-default': lambda m: ent(m, 'ns', 'A')[2].append(F('f4', 'Integer', 'default')),
    'add1-missing-default': lambda m: ent(m, 'ns', 'A')[2].append(F('f4', 'String', 'req')),
    'add2': lambda m: ent(m, 'ns', 'A')[2].extend([F('f4', 'String', 'nullable'), F('f5', 'Integer', 'default')]),
    'add-middle': lambda m: ent(m, 'ns', 'A')[2].insert(1, F('f4', 'String', 'nullable')),
    'remove-field': lambda m: ent(m, 'ns', 'A')[2].pop(),
    'retype': lambda m: ent(m, 'ns', 'A')[2].__setitem__(1, F('f2', 'String', 'nullable')),
    'nullable-to-required': lambda m: ent(m, 'ns', 'A')[2].__setitem__(1, F('f2', 'Integer', 'req')),
    'nullable-to-default': lambda m: ent(m, 'ns', 'A')[2].__setitem__(1, F('f2', 'Integer', 'default')),
    'default-to-nullable': lambda m: ent(m, 'ns', 'A')[2].__setitem__(2, F('f3', 'Boolean', 'nullable')),
    'default-to-required': lambda m: ent(m, 'ns', 'A')[2].__setitem__(2, F('f3', 'Boolean', 'req')),
    'required-to-nullable': lambda m: ent(m, 'ns', 'A')[2].__setitem__(0, F('f1', 'String', 'nullable')),
    'deprecate': lambda m: (set_ent(m, 'ns', 'A', ('A', True, ent(m, 'ns', 'A')[2])), ent(m, 'ns', 'A')[2].__setitem__(0, F('f1', 'String', 'req', True))),
    'flip-then-remove': lambda m: (ent(m, 'ns', 'A')[2].__setitem__(0, F('f1', 'String', 'nullable', True)), ent(m, 'ns', 'A')[2].pop()),
    'flip-then-retype': lambda m: (ent(m, 'ns', 'A')[2].__setitem__(0, F('f1', 'String', 'nullable', True)),
                                   ent(m, 'ns', 'A')[2].__setitem__(2, F('f3', 'Integer', 'default'))),
    'valid-A-invalid-B': lambda m: (set_ent(m, 'ns', 'A', ('A', True, ent(m, 'ns', 'A')[2])), ent(m, 'ns', 'B')[2].pop(0), ent(m, 'ns', 'B')[2].append(F('g9'))),
    'add-entity': lambda m: m[0][1].append(('C', False, [F('h1')])),
    'add-entity-middle': lambda m: m[0][1].insert(1, ('C', False, [F('h1')])),
    'remove-entity': lambda m: m[0][1].pop(),
    'add-namespace': lambda m: m.append(('ns2', [('D', False, [F('k1')])])),
    'valid-ns-invalid-other-ns': lambda m: (m[0][1].append(('Z', False, [F('z1')])), ent(m, 'zz', 'C')[2].pop(), ent(m, 'zz', 'C')[2].append(F('h9'))),
    'new-ns-and-invalid-ns': lambda m: (m.append(('ns2', [('D', False, [F('k1')])])), ent(m, 'zz', 'C')[2].pop(), ent(m, 'zz', 'C')[2].append(F('h9'))),
    'remove-namespace': lambda m: m.pop(),
}
THOROUGH_EDITS = {
    'add2-and-entity': lambda m: (ent(m, 'ns', 'A')[2].extend([F('f4', 'String', 'nullable'), F('f5', 'Integer', 'default')]), m[0][1].append(('C', False, [F('h1'), F('h2', 'Integer', 'nullable')]))),
    'add3': lambda m: ent(m, 'ns', 'A')[2].extend([F('f4', 'String', 'nullable'), F('f5', 'Integer', 'default'), F('f6', 'Boolean', 'nullable')]),
    'add2-both-entities': lambda m: (ent(m, 'ns', 'A')[2].extend([F('f4', 'String', 'nullable'), F('f5', 'Integer', 'default')]),
                                     ent(m, 'ns', 'B')[2].extend([F('g2', 'String', 'nullable'), F('g3', 'Integer', 'default')])),
}


SYM_SETS = {
    # which flags are symbolic (independently in the old and the new version): entity A and two of its fields
    'A': (('ns', 'A'), ('ns', 'A', 'f1'), ('ns', 'A', 'f2')),
    'AB': (('ns', 'A'), ('ns', 'A', 'f1'), ('ns', 'B'), ('ns', 'B', 'g1')),
}
SYM_EDITS = {'same': 'A', 'remove-field': 'A', 'retype': 'A', 'flip-then-remove': 'A', 'valid-A-invalid-B': 'AB', 'add1-nullable': 'A',
             'add1-missing-default': 'A', 'remove-entity': 'AB', 'add-entity': 'AB'}


def shapes(tier):
    out = []
    for name in EDITS:
        if name in ('valid-ns-invalid-other-ns', 'new-ns-and-invalid-ns'):
            continue      # need the two-namespace base
        out.append(dict(base='BASE', edit=name))
        if name in SYM_EDITS:
            out.append(dict(base='BASE', edit=name, sym=SYM_SETS[SYM_EDITS[name]]))
    for name in ('same', 'add2', 'remove-namespace', 'add-namespace', 'flip-then-remove', 'valid-ns-invalid-other-ns', 'new-ns-and-invalid-ns', 'add-entity'):
        out.append(dict(base='BASE2', edit=name))
    if tier == 'thorough':
        for name in THOROUGH_EDITS:
            out.append(dict(base='BASE', edit=name))
    return out


def decls(shape):
    base = {'BASE': BASE, 'BASE2': BASE2}[shape['base']]
    fn = EDITS.get(shape['edit']) or THOROUGH_EDITS[shape['edit']]
    return base, edit(base, fn)


FT_VARIANTS = ['Array', 'Entity', 'Boolean', 'Float', 'Base64', 'Integer', 'String', 'Json']


def field_type(name):
    return Enum('FieldType', FT_VARIANTS.index(name), name, [])


def build_model(ctx, w, decl, tag=None, flags=None, sym=()):
    """as parse_internal: DataModel::new, then per entity Entity::new + add_field* + DataModel::insert(ns, e, 1).
    With a tag, the nullable / deprecated flags are fresh symbolic booleans (recorded in `flags`)."""
    dm_new = ctx.method('DataModel', 'new')
    ent_new = ctx.method('Entity', 'new')
    fld_new = ctx.method('Field', 'new')
    add_field = ctx.method('Entity', 'add_field')
    insert = ctx.method('DataModel', 'insert')
    dm = Cell(ctx.call(dm_new, []))
    for ns, ents in decl:
        for (ename, edep, fields) in ents:
            e = Cell(ctx.call(ent_new, []))
            w.field(e.v, 'Entity', 'name').v = S(lit='%s.%s' % (ns, ename) if ns else ename, text=True)
            if tag and (ns, ename) in sym:
                k = (tag, ns, ename, None, 'deprecated')
                if k not in flags:
                    flags[k] = w.boolean('%s_%s_%s_dep' % (tag, ns, ename))
                edep = flags[k]
            w.field(e.v, 'Entity', 'deprecated').v = edep
            for (fname, ftype, mode, fdep) in fields:
                f = ctx.call(fld_new, [])
                w.field(f, 'Field', 'name').v = S(lit=fname, text=True)
                w.field(f, 'Field', 'field_type').v = field_type(ftype)
                nul = (mode == 'nullable')
                if tag and (ns, ename, fname) in sym:
                    k = (tag, ns, ename, fname, 'deprecated')
                    if k not in flags:
                        flags[k] = w.boolean('%s_%s_%s_%s_dep' % (tag, ns, ename, fname))
                    fdep = flags[k]
                    if mode != 'default':
                        k = (tag, ns, ename, fname, 'nullable')
                        if k not in flags:
                            flags[k] = w.boolean('%s_%s_%s_%s_nul' % (tag, ns, ename, fname))
                        nul = flags[k]
                w.field(f, 'Field', 'nullable').v = nul
                w.field(f, 'Field', 'deprecated').v = fdep
                if mode == 'default':
                    w.field(f, 'Field', 'default_value').v = some(Enum('ParamValue', 1, 'Integer', [Cell(Int(64, True, 0))]))
                r = ctx.call(add_field, [Ref(e, True), f])
                if r.variant != 0:
                    raise Inconclusive('driver: add_field refused a declared field')
            r = ctx.call(insert, [Ref(dm, True), S(lit=ns, text=True), e.v, Int(64, False, 1)])
            if r.variant != 0:
                raise Inconclusive('driver: DataModel::insert refused a declared entity')
    return dm


def deep_eq(a, b):
    """structural equality of two interpreter values (maps compared as sets of entries): python bool or z3 Bool"""
    a, b = deref(a), deref(b)
    if is_bool(a) and is_bool(b):
        if isinstance(a, bool) and isinstance(b, bool):
            return a == b
        return b_z(a) == b_z(b)
    if type(a) is not type(b):
        return False
    if isinstance(a, S):
        return s_eq(a, b)
    if isinstance(a, Int):
        if a.concrete and b.concrete:
            return a.v == b.v
        return a.z() == b.z()
    if isinstance(a, (Struct, Enum)):
        if isinstance(a, Enum) and a.variant != b.variant:
            return False
        if len(a.fields) != len(b.fields):
            return False
        r = True
        for x, y in zip(a.fields, b.fields):
            r = b_and(r, deep_eq(x.v, y.v))
        return r
    if isinstance(a, (VecV, SliceV)):
        if len(a.elems) != len(b.elems):
            return False
        r = True
        for x, y in zip(a.elems, b.elems):
            r = b_and(r, deep_eq(x.v, y.v))
        return r
    if isinstance(a, MapV):
        if len(a.entries) != len(b.entries):
            return False
        r = True
        for k, c in a.entries:
            hit = [c2 for k2, c2 in b.entries if deep_eq(k, k2) is True]
            if len(hit) != 1:
                return False
            r = b_and(r, deep_eq(c.v, hit[0].v))
        return r
    if isinstance(a, UnitT):
        return True
    if isinstance(a, Opaque):
        return a.tag == b.tag
    return a is b


def attrs_differ(w, dm, fresh):
    """first attribute (deprecated / nullable / default) on which the running model and a model built from the accepted text differ: (label, condition) or None"""
    def ents(d):
        out = {}
        for nk, nc in deref(w.field(d, 'DataModel', 'namespaces').v).entries:
            for ek, ec in nc.v.entries:
                out[ek.lit.decode()] = ec.v
        return out
    a, b = ents(dm), ents(fresh)
    conds = []
    for en, eb in b.items():
        if en not in a:
            return ('entity %s missing' % en, z3.BoolVal(True))
        ea = a[en]
        conds.append(('entity %s deprecated flag' % en, znot(zb(deep_eq(w.field(ea, 'Entity', 'deprecated').v, w.field(eb, 'Entity', 'deprecated').v)))))
        fa = {k.lit.decode(): c.v for k, c in deref(w.field(ea, 'Entity', 'fields').v).entries}
        for fk, fc in deref(w.field(eb, 'Entity', 'fields').v).entries:
            fn = fk.lit.decode()
            if fn not in fa:
                return ('field %s.%s missing' % (en, fn), z3.BoolVal(True))
            for attr in ('nullable', 'deprecated', 'default_value'):
                conds.append(('field %s.%s %s' % (en, fn, attr), znot(zb(deep_eq(w.field(fa[fn], 'Field', attr).v, w.field(fc.v, 'Field', attr).v)))))
    live = [(l, c) for l, c in conds if not z3.is_false(z3.simplify(c))]
    if not live:
        return None
    return ('; '.join(l for l, c in live[:3]), zor(*[c for l, c in live]))


def read_ids(w, dm):
    """{entity name: (short, {field: (short, type)})} from the real DataModel value"""
    out = {}
    nss = deref(w.field(dm, 'DataModel', 'namespaces').v)
    for nk, nc in nss.entries:
        for ek, ec in nc.v.entries:
            e = ec.v
            fields = {}
            for fk, fc in deref(w.field(e, 'Entity', 'fields').v).entries:
                f = fc.v
                fields[fk.lit.decode()] = (deref(w.field(f, 'Field', 'short_name').v).lit.decode(), deref(w.field(f, 'Field', 'field_type').v).vname)
            out[ek.lit.decode()] = (deref(w.field(e, 'Entity', 'short_name').v).lit.decode(), fields)
    return out


def explore(ctx, shape, tier, report):
    old_decl, new_decl = decls(shape)
    update_with = ctx.method('DataModel', 'update_with')
    seen_assignments = {}
    ctx.map_order = 'all'

    def path(ctx):
        w = World(ctx)
        ctx.map_order = 'fixed'          # building is deterministic (declaration order)
        flags = {}
        sym = shape.get('sym', ())
        dm = build_model(ctx, w, old_decl, 'old', flags, sym)
        new = build_model(ctx, w, new_decl, 'new', flags, sym)
        snapshot = clone_val(dm.v)
        ids_before = read_ids(w, dm.v)
        ctx.map_order = 'all'
        info = dict(shape=shape, old=old_decl, new=new_decl, flags=flags)
        try:
            res = ctx.exec_fn(update_with, [Ref(dm, True), new.v, False])
        except Panic as p:
            report.panic(ctx, w, p, info)
            return
        accepted = res.variant == 0
        report.path(accepted)
        if report.want_sample(accepted):
            ms = ctx.check_sat(True)
            sc = scenario(ctx, ms, 'sample', info)
            sc['expect'] = dict(accepted=accepted, mixed_verdicts=False)
            report.sample(sc)
        if not accepted:
            report.witness('refused')
            m = ctx.check_sat(znot(zb(deep_eq(dm.v, snapshot))))
            if m is not None:
                report.violation(ctx, m, 'refused-update-changed-the-model', info)
            return
        report.witness('accepted')
        ids_after = read_ids(w, dm.v)
        # (ii) old entities and fields keep name, type and storage id; ids are unique
        for en, (es, fl) in ids_before.items():
            if en not in ids_after or ids_after[en][0] != es:
                info['detail'] = 'entity %s' % en
                report.violation(ctx, ctx.check_sat(True), 'storage-id-changed', info)
                return
            for fn, (fs, ft) in fl.items():
                if fn not in ids_after[en][1] or ids_after[en][1][fn] != (fs, ft):
                    info['detail'] = 'field %s.%s' % (en, fn)
                    report.violation(ctx, ctx.check_sat(True), 'storage-id-changed', info)
                    return
        shorts = [v[0] for v in ids_after.values()]
        if len(set(shorts)) != len(shorts) or any(len(set(f[0] for f in v[1].values())) != len(v[1]) for v in ids_after.values()):
            report.violation(ctx, ctx.check_sat(True), 'storage-id-collision', info)
            return
        # (iii) the ids depend only on the versions applied, not on the iteration order
        prev = seen_assignments.setdefault('a', ids_after)
        if prev != ids_after:
            info['detail'] = 'two iteration orders give %r and %r' % (sorted((k, sorted((f, s[0]) for f, s in v[1].items())) for k, v in prev.items()),
                                                                     sorted((k, sorted((f, s[0]) for f, s in v[1].items())) for k, v in ids_after.items()))
            report.violation(ctx, ctx.check_sat(True), 'ids-depend-on-map-order', info)
            return
        # (vi) the attributes of the running model are those of the accepted version (a peer that starts from this version has exactly them)
        ctx.map_order = 'fixed'
        fresh = build_model(ctx, w, new_decl, 'new', flags, sym)
        ctx.map_order = 'all'
        bad = attrs_differ(w, dm.v, fresh.v)
        if bad is not None:
            mm = ctx.check_sat(bad[1])
            if mm is not None:
                info['detail'] = bad[0]
                report.violation(ctx, mm, 'attributes-not-those-of-the-accepted-version', info)
                return
        # (iv) re-applying the accepted version is accepted and changes nothing (restart with the same model)
        ctx.map_order = 'fixed'
        again = build_model(ctx, w, new_decl, 'new', flags, sym)
        ctx.map_order = 'all'
        before2 = clone_val(dm.v)
        try:
            res2 = ctx.exec_fn(update_with, [Ref(dm, True), again.v, False])
        except Panic as p:
            report.panic(ctx, w, p, info)
            return
        if res2.variant != 0:
            report.violation(ctx, ctx.check_sat(True), 'reapplying-accepted-version-refused', info)
            return
        if read_ids(w, dm.v) != ids_after:
            report.violation(ctx, ctx.check_sat(True), 'reapplying-accepted-version-changes-ids', info)
            return
        # (v) the next version (one more entity per namespace, one more nullable field per entity) is accepted and neither moves nor re-uses an identifier
        next_decl = copy.deepcopy(new_decl)
        for ns, ents in next_decl:
            for e in ents:
                e[2].append(F('nx_' + e[0].lower(), 'String', 'nullable'))
            ents.append(('Nx' + ns.capitalize(), False, [F('n1', 'String', 'nullable')]))
        ctx.map_order = 'fixed'
        nxt = build_model(ctx, w, next_decl, 'new', flags, sym)
        info['next'] = next_decl
        try:
            res3 = ctx.exec_fn(update_with, [Ref(dm, True), nxt.v, False])
        except Panic as p:
            report.panic(ctx, w, p, info)
            return
        finally:
            ctx.map_order = 'all'
        if res3.variant != 0:
            report.violation(ctx, ctx.check_sat(True), 'next-version-refused', info)
            return
        ids_next = read_ids(w, dm.v)
        for en, (es, fl) in ids_after.items():
            if en not in ids_next or ids_next[en][0] != es or any(fn not in ids_next[en][1] or ids_next[en][1][fn] != v for fn, v in fl.items()):
                info['detail'] = 'entity %s after the next version' % en
                report.violation(ctx, ctx.check_sat(True), 'storage-id-changed', info)
                return
        shorts = [(k.split('.')[0], v[0]) for k, v in ids_next.items()]
        if len(set(shorts)) != len(shorts) or any(len(set(f[0] for f in v[1].values())) != len(v[1]) for v in ids_next.values()):
            info['detail'] = 'after the next version: %r' % sorted((k, v[0]) for k, v in ids_next.items())
            report.violation(ctx, ctx.check_sat(True), 'storage-id-collision', info)

    try:
        ctx.explore(path)
    finally:
        ctx.map_order = 'fixed'


def model_text(decl, tag=None, flags=None, m=None):
    def flag(key, default):
        if flags is None or m is None or key not in flags:
            return default
        return z3.is_true(m.eval(flags[key], model_completion=True))
    out = []
    for ns, ents in decl:
        out.append('%s {' % ns)
        for (ename, edep, fields) in ents:
            edep = flag((tag, ns, ename, None, 'deprecated'), edep)
            out.append('  %s%s {' % ('@deprecated ' if edep else '', ename))
            for (fname, ftype, mode, fdep) in fields:
                fdep = flag((tag, ns, ename, fname, 'deprecated'), fdep)
                if mode != 'default':
                    mode = 'nullable' if flag((tag, ns, ename, fname, 'nullable'), mode == 'nullable') else 'req'
                suffix = {'req': '', 'nullable': ' nullable', 'default': ' default ' + {'Integer': '0', 'String': '""', 'Boolean': 'true', 'Float': '0.0'}.get(ftype, '0')}[mode]
                out.append('    %s%s : %s%s,' % ('@deprecated ' if fdep else '', fname, ftype, suffix))
            out.append('  }')
        out.append('}')
    return '\n'.join(out)


def scenario(ctx, m, kind, info):
    sc = dict(kind='data_model_update', property='C15', shape=info['shape'], old_text=model_text(info['old'], 'old', info.get('flags'), m),
              new_text=model_text(info['new'], 'new', info.get('flags'), m))
    if kind == 'sample':
        return sc
    if kind == 'panic':
        sc['expect'] = dict(result='panic')
        return sc
    sc['violation'] = kind
    sc['expect'] = {'refused-update-changed-the-model': dict(refused_changed_model=True),
                    'ids-depend-on-map-order': dict(distinct_assignments=True),
                    'reapplying-accepted-version-refused': dict(reapply_refused=True),
                    'reapplying-accepted-version-changes-ids': dict(reapply_changes=True),
                    'storage-id-changed': dict(id_changed=True),
                    'storage-id-collision': dict(id_collision=True),
                    'next-version-refused': dict(next_refused=True),
                    'attributes-not-those-of-the-accepted-version': dict(attributes_differ=True)}[kind]
    if info.get('next') is not None:
        sc['next_text'] = model_text(info['next'], 'new', info.get('flags'), m)
    sc['what'] = '%s (edit: %s) %s' % (kind, info['shape']['edit'], info.get('detail', ''))
    cls = {'add2': 'several-fields-added', 'add3': 'several-fields-added', 'add2-and-entity': 'several-fields-added', 'add2-both-entities': 'several-fields-added'}.get(info['shape']['edit'], info['shape']['edit'])
    sc['signature'] = '%s:%s' % (kind, 'partial-update' if kind == 'refused-update-changed-the-model' else cls)
    return sc
