"""C09 — the daily log is a function of the stored content (marking kernel).
For each kind of write, the (room, entity, day) cells passed to DailyMutations::set_need_update must
cover every cell whose stored content the write changes.  Cell content (daily_log.rs compute): node
rows by (room_id, _entity, day(mdate)), node tombstones by (room_id, entity, day(deletion_date)),
reference tombstones by (room_id, src_entity, day(deletion_date))."""
import itertools
import z3
from mirsym.interp import *
from mirsym.values import *
from mirsym.models import deref, DAYFN, day_axioms, rem_day, CHRONO_MIN, CHRONO_MAX
from .lib import *
from .c01 import ROOMS

KEYS = [S(lit=b'K1'.ljust(33, b'k'))]
REQUIRED_WITNESSES = ['covered']
BOUNDS = {
    'quick': 'local mutation trees of depth <= 2 (every node: room present/absent, written/reference, old row none/roomless/in a room, 0-1 reference tombstones); '
             'batches of 2 mutations; one synchronised row (old version none / present); deletion queries with <= 2 node tombstones, <= 1 reference tombstone, '
             '<= 1 re-dated parent row; room mutations with 2 entities; synchronised tombstone batches of <= 2; rooms symbolic in {R1,R2,R3}, entities and all dates symbolic',
    'thorough': 'as quick with depth <= 3 and one more item per list',
}
ASSUMPTIONS = [
    'dates lie in the range chrono can represent (panics outside it are counted under C14)',
    'a reference-deletion query re-dates its parent row: updated_nodes[i] is the stored row with mdate replaced; its previous mdate is known to the driver only',
    'what a (room, entity, day) cell contains is read from the SQL text of DailyLogsUpdate::compute (node rows by mdate, tombstones by deletion date); recomputation itself is outside',
]


def node_shapes():
    return [(r, n, o) for r in (0, 1) for n in (0, 1) for o in (0, 1, 2) if not (n == 0 and o == 0) and not (o == 2 and r == 0)]


def shapes(tier):
    out = []
    ns = node_shapes()
    for a in ns:
        for ndel in (0, 1):
            out.append(dict(part='insert', tree=[(a, ndel)]))
        for b in ns:
            out.append(dict(part='insert', tree=[(a, 0), (b, 1)]))
    out.append(dict(part='batch', trees=[[((1, 1, 2), 0)], [((1, 1, 0), 1)]]))
    for old in (0, 1, 2):       # previous version: none / stored in a room / stored without a room
        for has_node in (0, 1):
            out.append(dict(part='sync_node', old=old, has_node=has_node))
    for nn in (0, 1, 2):
        for ne in (0, 1):
            for nu in (0, 1):
                if nn + ne + nu and (tier == 'thorough' or nn + ne + nu <= 3):
                    out.append(dict(part='deletion', nodes=nn, edges=ne, updated=nu))
    out.append(dict(part='deletion', nodes=0, edges=1, updated=2))
    out.append(dict(part='deletion', nodes=0, edges=0, updated=2))
    out.append(dict(part='room_mutation'))
    for kind in ('node', 'edge'):
        for n in (1, 2):
            out.append(dict(part='sync_tombstones', kind=kind, n=n))
    return out


class Req:
    """a cell that must be marked: (room, entity, date) with a label"""

    def __init__(self, room, entity, date, label):
        self.room, self.entity, self.date, self.label = room, entity, date, label


def marks_of(w, dm):
    """read the marks out of the real DailyMutations value: [(room S, entity S, day Int)]"""
    rd = deref(w.field(dm, 'DailyMutations', 'room_dates').v)
    out = []
    for rk, rc in rd.entries:
        for ek, ec in rc.v.entries:
            for dk, _ in ec.v.entries:
                out.append((rk, ek, dk))
    return out


def covered(marks, req):
    return zor(*[zand(seq(r, req.room), seq(e, req.entity), d.z() == DAYFN(req.date.z())) for (r, e, d) in marks])


def decide(ctx, w, report, dm, reqs, info):
    marks = marks_of(w, dm)
    for rq in reqs:
        if not rq.date.concrete:
            rem_day(ctx, rq.date.z())      # the oracle's own day terms get the same lazy definition
    info['marks'] = marks
    info['reqs'] = reqs
    report.path(True)
    if report.want_sample(True):
        ms = ctx.check_sat(zand(*day_axioms(ctx)))
        if ms is not None:
            sc = scenario(ctx, ms, 'sample', info)
            sc['expect'] = dict(missing=[])
            report.sample(sc)
    for rq in reqs:
        cov = covered(marks, rq)
        m = ctx.check_sat(znot(cov))
        if m is None:
            continue
        # the day function was uninterpreted so far: confirm with its exact definition
        m = ctx.check_sat(zand(znot(cov), *day_axioms(ctx)))
        if m is not None:
            info['culprit'] = rq
            report.violation(ctx, m, 'cell-not-marked', info)
            return
    report.witness('covered')


def mk_node(w, tag, room, mdate, entity, nid=None):
    return w.node(id=nid or w.atom(tag + '_id', None, 'uid', n=16), room_id=room, cdate=w.i64(tag + '_cdate'), mdate=mdate, entity=entity,
                  author=KEYS[0], json=w.atom(tag + '_json', None, 'str'))


def build_tree(w, tree, level, date, reqs, tag='t'):
    (has_room, has_node, old), ndel = tree[0]
    t = '%s%d' % (tag, level)
    nid = w.atom(t + '_id', None, 'uid', n=16)
    room = w.atom(t + '_room', ROOMS, 'uid', n=16) if has_room else None
    short = w.atom(t + '_short', None, 'str')
    node = mk_node(w, t, room, date, short, nid) if has_node else None
    old_node = None
    if old:
        old_room = w.atom(t + '_oldroom', ROOMS, 'uid', n=16) if old == 2 else None
        old_mdate = w.i64(t + '_oldmdate')
        old_node = mk_node(w, t + 'o', old_room, old_mdate, short, nid)   # a row keeps its entity
        if has_node and old_room is not None:
            reqs.append(Req(old_room, short, old_mdate, 'old version of a locally updated row'))
    if has_node and room is not None:
        reqs.append(Req(room, short, date, 'locally written row'))
    ntm = w.struct('NodeToMutate', id=nid, date=date, entity=w.atom(t + '_entity', None, 'str'), room_id=w.opt(room), node=w.opt(node),
                   node_fts_str=none(), old_node=w.opt(old_node), old_fts_str=none(), enable_full_text=True)
    logs = []
    for i in range(ndel):
        lr = w.atom('%s_log%d_room' % (t, i), ROOMS, 'uid', n=16)
        le = w.atom('%s_log%d_se' % (t, i), None, 'str')
        ld = w.i64('%s_log%d_date' % (t, i))
        logs.append(w.struct('EdgeDeletionEntry', room_id=lr, src=nid, src_entity=le, dest=w.atom('%s_log%d_dest' % (t, i), None, 'uid', n=16),
                             label=S(lit='l'), cdate=w.i64('%s_log%d_cdate' % (t, i)), deletion_date=ld, verifying_key=KEYS[0], signature=S(lit=b's'),
                             entity_name=none()))
        reqs.append(Req(lr, le, ld, 'reference tombstone written with a mutation'))
    subs = MapV()
    if len(tree) > 1:
        child = build_tree(w, tree[1:], level + 1, date, reqs, tag)
        subs.entries.append([S(lit='f'), Cell(VecV([Cell(child)]))])
    return w.struct('InsertEntity', name=S(lit='x'), node_to_mutate=ntm, edge_deletions=VecV(), edge_deletions_log=VecV([Cell(x) for x in logs]),
                    edge_insertions=VecV(), sub_nodes=subs)


def new_marks(ctx, w):
    return ctx.call(ctx.method('DailyMutations', 'default', 'Default'), [])


def explore(ctx, shape, tier, report, dates_in_range=True):
    part = shape['part']
    ctx.dates_in_range = dates_in_range

    def path(ctx):
        w = World(ctx)
        if dates_in_range:
            orig_i64 = w.i64

            def ranged(name):
                v = orig_i64(name)
                ctx.add(z3.And(v.v >= CHRONO_MIN, v.v <= CHRONO_MAX))
                return v
            w.i64 = ranged
        reqs = []
        dm = new_marks(ctx, w)
        dmc = Cell(dm)
        info = dict(part=part, shape=shape)
        try:
            if part == 'insert':
                date = w.i64('op_date')
                ie = build_tree(w, shape['tree'], 0, date, reqs)
                info['values'] = dict(ie=ie)
                ctx.exec_fn(ctx.method('InsertEntity', 'update_daily_logs'), [Ref(Cell(ie)), Ref(dmc, True)])
            elif part == 'batch':
                date = w.i64('op_date')
                ies = [build_tree(w, t, 0, date, reqs, tag='b%d_' % i) for i, t in enumerate(shape['trees'])]
                mq = w.struct('MutationQuery', mutate_entities=VecV([Cell(x) for x in ies]), mutation_parser=Opaque('parser'), date=date)
                info['values'] = dict(ies=ies)
                ctx.exec_fn(ctx.method('MutationQuery', 'update_daily_logs'), [Ref(Cell(mq)), Ref(dmc, True)])
            elif part == 'sync_node':
                nid = w.atom('id', None, 'uid', n=16)
                room = w.atom('room', ROOMS, 'uid', n=16)
                short = w.atom('short', None, 'str')
                mdate = w.i64('mdate')
                node = mk_node(w, 's', room, mdate, short, nid) if shape['has_node'] else None
                old_room = w.atom('old_room', ROOMS, 'uid', n=16) if shape['old'] == 1 else None
                old_mdate = w.i64('old_mdate')
                nti = w.struct('NodeToInsert', id=nid, node=w.opt(node), entity_name=none(), index=True, old_room_id=w.opt(old_room), old_mdate=old_mdate,
                               old_verifying_key=w.opt(KEYS[0] if shape['old'] else None), old_local_id=w.opt(w.i64('old_local_id') if shape['old'] else None),
                               old_fts_str=none(), node_fts_str=none())
                if node is not None:
                    reqs.append(Req(room, short, mdate, 'synchronised row'))
                    if old_room is not None:
                        reqs.append(Req(old_room, short, old_mdate, 'old version of a synchronised row'))
                info['values'] = dict(nti=nti)
                ctx.exec_fn(ctx.method('NodeToInsert', 'update_daily_logs'), [Ref(Cell(nti)), Ref(dmc, True)])
            elif part == 'deletion':
                node_log, edge_log, updated, prev = [], [], [], []
                for i in range(shape['nodes']):
                    r, e = w.atom('nl%d_room' % i, ROOMS, 'uid', n=16), w.atom('nl%d_ent' % i, None, 'str')
                    md, dd = w.i64('nl%d_mdate' % i), w.i64('nl%d_ddate' % i)
                    node_log.append(w.struct('NodeDeletionEntry', room_id=r, id=w.atom('nl%d_id' % i, None, 'uid', n=16), entity=e, mdate=md, deletion_date=dd,
                                             verifying_key=KEYS[0], signature=S(lit=b's'), entity_name=none()))
                    reqs.append(Req(r, e, md, 'day of the deleted row'))
                    reqs.append(Req(r, e, dd, 'day of the node tombstone'))
                for i in range(shape['edges']):
                    r, e, dd = w.atom('el%d_room' % i, ROOMS, 'uid', n=16), w.atom('el%d_ent' % i, None, 'str'), w.i64('el%d_ddate' % i)
                    edge_log.append(w.struct('EdgeDeletionEntry', room_id=r, src=w.atom('el%d_src' % i, None, 'uid', n=16), src_entity=e,
                                             dest=w.atom('el%d_dest' % i, None, 'uid', n=16), label=S(lit='l'), cdate=w.i64('el%d_cdate' % i), deletion_date=dd,
                                             verifying_key=KEYS[0], signature=S(lit=b's'), entity_name=none()))
                    reqs.append(Req(r, e, dd, 'day of the reference tombstone'))
                for i in range(shape['updated']):
                    r, e = w.atom('up%d_room' % i, ROOMS, 'uid', n=16), w.atom('up%d_ent' % i, None, 'str')
                    newd, oldd = w.i64('up%d_mdate' % i), w.i64('up%d_oldmdate' % i)
                    updated.append(mk_node(w, 'up%d' % i, r, newd, e))
                    prev.append(oldd)
                    reqs.append(Req(r, e, newd, 'new day of the re-dated parent row'))
                    reqs.append(Req(r, e, oldd, 'previous day of the re-dated parent row'))
                dq = w.deletion_query(previous_mdates=prev, nodes=VecV(), node_log=VecV([Cell(x) for x in node_log]), updated_nodes=VecV([Cell(x) for x in updated]),
                              edges=VecV(), edge_log=VecV([Cell(x) for x in edge_log]))
                info['values'] = dict(dq=dq)
                ctx.exec_fn(ctx.method('DeletionQuery', 'update_daily_logs'), [Ref(Cell(dq)), Ref(dmc, True)])
            elif part == 'room_mutation':
                date = w.i64('op_date')
                ie_room = build_tree(w, [((0, 1, 0), 0)], 0, date, [], tag='rm')
                ie_data = build_tree(w, [((1, 1, 2), 1)], 0, date, reqs, tag='rd')
                room_id = deref(w.field(w.field(ie_room, 'InsertEntity', 'node_to_mutate').v, 'NodeToMutate', 'id').v)
                data_id = deref(w.field(w.field(ie_data, 'InsertEntity', 'node_to_mutate').v, 'NodeToMutate', 'id').v)
                ctx.add(znot(seq(room_id, data_id)))
                mq = w.struct('MutationQuery', mutate_entities=VecV([Cell(ie_room), Cell(ie_data)]), mutation_parser=Opaque('parser'), date=date)
                q = w.struct('RoomMutationWriteQuery', room_list=MapV([[room_id, Cell(UNIT)]], is_set=True), mutation_query=mq, reply=Opaque('sender'))
                info['values'] = dict(ies=[ie_room, ie_data])
                ctx.exec_fn(ctx.method('RoomMutationWriteQuery', 'update_daily_logs'), [Ref(Cell(q)), Ref(dmc, True)])
            elif part == 'sync_tombstones':
                entries = []
                for i in range(shape['n']):
                    r, e, dd = w.atom('t%d_room' % i, ROOMS, 'uid', n=16), w.atom('t%d_ent' % i, None, 'str'), w.i64('t%d_ddate' % i)
                    if shape['kind'] == 'node':
                        md = w.i64('t%d_mdate' % i)
                        entries.append(w.struct('NodeDeletionEntry', room_id=r, id=w.atom('t%d_id' % i, None, 'uid', n=16), entity=e, mdate=md, deletion_date=dd,
                                                verifying_key=KEYS[0], signature=S(lit=b's'), entity_name=none()))
                        reqs.append(Req(r, e, md, 'day of the row deleted by a synchronised tombstone'))
                        reqs.append(Req(r, e, dd, 'day of the synchronised node tombstone'))
                    else:
                        entries.append(w.struct('EdgeDeletionEntry', room_id=r, src=w.atom('t%d_src' % i, None, 'uid', n=16), src_entity=e,
                                                dest=w.atom('t%d_dest' % i, None, 'uid', n=16), label=S(lit='l'), cdate=w.i64('t%d_cdate' % i), deletion_date=dd,
                                                verifying_key=KEYS[0], signature=S(lit=b's'), entity_name=none()))
                        reqs.append(Req(r, e, dd, 'day of the synchronised reference tombstone'))
                vec = Cell(VecV([Cell(x) for x in entries]))
                fn = ctx.method('NodeDeletionEntry' if shape['kind'] == 'node' else 'EdgeDeletionEntry', 'delete_all')
                info['values'] = dict(entries=entries)
                res = ctx.exec_fn(fn, [Ref(vec, True), Ref(dmc, True), Ref(Cell(Opaque('connection')))])
                if res.variant != 0:
                    report.path(False)
                    report.witness('sql-error-path')
                    return          # the transaction is rolled back by the caller; marks are irrelevant
        except Panic as p:
            report.panic(ctx, w, p, info)
            return
        decide(ctx, w, report, dmc.v, reqs, info)

    try:
        ctx.explore(path)
    finally:
        ctx.dates_in_range = False


def conc_value(c, w, v):
    """concrete JSON form of an interpreter value tree (structs by field name)"""
    v = deref(v)
    if isinstance(v, S):
        return c.atom(v, 'v')
    if isinstance(v, Int):
        return c.int(v)
    if isinstance(v, bool) or z3.is_expr(v):
        return c.bool(v)
    if isinstance(v, Enum):
        if v.name == 'Option':
            return None if v.variant == 0 else conc_value(c, w, v.fields[0].v)
        return v.vname
    if isinstance(v, Struct):
        fields = w.src.struct_fields(v.name)
        if fields and len(fields) == len(v.fields):
            return {f: conc_value(c, w, cell.v) for f, cell in zip(fields, v.fields)}
        return [conc_value(c, w, cell.v) for cell in v.fields]
    if isinstance(v, (VecV, SliceV)):
        return [conc_value(c, w, cell.v) for cell in v.elems]
    if isinstance(v, MapV):
        return [[conc_value(c, w, k), conc_value(c, w, cell.v)] for k, cell in v.entries]
    if isinstance(v, (Opaque, UnitT)):
        return None
    return repr(v)


def scenario(ctx, m, kind, info):
    c = Concretizer(m)
    w = World(ctx)
    vals = {k: ([conc_value(c, w, x) for x in v] if isinstance(v, list) else conc_value(c, w, v)) for k, v in info['values'].items()}
    reqs = [dict(room=c.atom(r.room, 'room'), entity=c.atom(r.entity, 'ent'), date=c.int(r.date), label=r.label) for r in info.get('reqs', [])]
    sc = dict(kind='daily_marks', property='C09', part=info['part'], shape=info['shape'], values=vals, required=reqs)
    if kind == 'sample':
        return sc
    if kind == 'panic':
        sc['expect'] = dict(result='panic')
        return sc
    rq = info['culprit']
    sc['culprit'] = dict(room=c.atom(rq.room, 'room'), entity=c.atom(rq.entity, 'ent'), date=c.int(rq.date), label=rq.label)
    sc['expect'] = dict(missing_culprit=True)
    sc['what'] = '%s does not mark the %s' % (info['part'], rq.label)
    sc['signature'] = 'cell-not-marked:%s:%s' % (info['part'], rq.label)
    return sc
