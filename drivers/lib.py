"""Shared driver code: value builders for the crate's types, the room-event generator that builds
real `Room`s through the real add_* functions, the *independent* oracle over event lists, and
the conversion of solver models into replayable scenarios."""
import z3
from mirsym.interp import *
from mirsym.values import *
from mirsym import values as V
from mirsym.models import deref, A

SYS_ENTS = ['sys.Room', 'sys.Authorisation', 'sys.EntityRight', 'sys.UserAuth']


def zb(x):
    return z3.BoolVal(x) if isinstance(x, bool) else x


def zand(*xs):
    xs = [x for x in xs if not (isinstance(x, bool) and x)]
    if any(isinstance(x, bool) and not x for x in xs):
        return z3.BoolVal(False)
    if not xs:
        return z3.BoolVal(True)
    return z3.And(*xs) if len(xs) > 1 else xs[0]


def zor(*xs):
    xs = [x for x in xs if not (isinstance(x, bool) and not x)]
    if any(isinstance(x, bool) and x for x in xs):
        return z3.BoolVal(True)
    if not xs:
        return z3.BoolVal(False)
    return z3.Or(*xs) if len(xs) > 1 else xs[0]


def znot(x):
    if isinstance(x, bool):
        return z3.BoolVal(not x)
    return z3.Not(x)


def zimp(a, b):
    return z3.Implies(zb(a), zb(b))


def seq(a, b):
    return zb(s_eq(a, b))


def ile(a, b):
    """signed a <= b on Int values"""
    if a.concrete and b.concrete:
        return z3.BoolVal(a.v <= b.v)
    return a.z() <= b.z()


class World:
    """per-path helper bound to a Ctx"""

    def __init__(self, ctx):
        self.ctx = ctx
        self.src = ctx.src
        self.syms = []      # (name, kind, value) for model extraction

    # -------------------------------------------------------------- symbols
    def atom(self, name, alphabet=None, kind='str', n=None):
        a = self.ctx.fresh(name, A)
        s = S(atom=a, text=(kind == 'str'), n=n)
        if alphabet is not None:
            self.ctx.add(z3.Or(*[a == x.as_atom() for x in alphabet]))
        return s

    def i64(self, name):
        return self.ctx.fresh_int(name, 'i64')

    def u64(self, name):
        return self.ctx.fresh_int(name, 'u64')

    def boolean(self, name):
        return self.ctx.fresh_bool(name)

    # -------------------------------------------------------------- structs
    def struct(self, _sname, **kw):
        name = _sname
        fields = self.src.struct_fields(name)
        if fields is None:
            raise Inconclusive('struct %s not found in source' % name)
        if set(kw) != set(fields):
            raise Inconclusive('struct %s fields changed: source has %s, driver gives %s' % (name, fields, sorted(kw)))
        return Struct(name, [Cell(kw[f]) for f in fields])

    def field(self, sv, sname, fname):
        sv = deref(sv)
        fields = self.src.struct_fields(sname)
        return sv.fields[fields.index(fname)]

    def deletion_query(self, previous_mdates=None, **kw):
        """DeletionQuery, tolerant of the field added by the C09 repair"""
        fields = self.src.struct_fields('DeletionQuery')
        if 'updated_nodes_previous_mdate' in fields:
            kw['updated_nodes_previous_mdate'] = VecV([Cell(x) for x in (previous_mdates or [])])
        return self.struct('DeletionQuery', **kw)

    def opt(self, v):
        return none() if v is None else some(v)

    def user(self, key, date, enabled):
        return self.struct('User', verifying_key=key, date=date, enabled=enabled)

    def node(self, id, room_id, cdate, mdate, entity, author, json=None, binary=None, signature=None):
        return self.struct('Node', id=id, room_id=self.opt(room_id), cdate=cdate, mdate=mdate, _entity=entity,
                           _json=self.opt(json), _binary=self.opt(binary), verifying_key=author,
                           _signature=signature if signature is not None else S(lit=b''), _local_id=none())

    def edge(self, src, src_entity, label, dest, cdate, author, signature=None):
        return self.struct('Edge', src=src, src_entity=src_entity, label=label, dest=dest, cdate=cdate,
                           verifying_key=author, signature=signature if signature is not None else S(lit=b''))

    def signing_key(self, key):
        return Opaque('signing_key', key)


# ------------------------------------------------------------------------------ room events

class RoomEvents:
    """the event lists a room was built from (driver-side ground truth for the oracle)"""

    def __init__(self, rid):
        self.id = rid
        self.admins = []      # (key, date, enabled)
        self.groups = []      # GroupEvents


class GroupEvents:
    def __init__(self, gid):
        self.id = gid
        self.users = []
        self.user_admins = []
        self.rights = []      # (entity, date, mutate_self, mutate_all)


def build_room(w, rid, spec, keys, ents, tag, gids=None):
    """Build a real Room through the real add_* functions from fresh symbolic events.
    spec = dict(admins=k, groups=[dict(users=k, user_admins=k, rights=k), ...])"""
    ctx = w.ctx
    room_default = ctx.method('Room', 'default', 'Default')
    auth_default = ctx.method('Authorisation', 'default', 'Default')
    add_admin = ctx.method('Room', 'add_admin_user')
    add_auth = ctx.method('Room', 'add_auth')
    add_user = ctx.method('Authorisation', 'add_user')
    add_user_admin = ctx.method('Authorisation', 'add_user_admin')
    add_right = ctx.method('Authorisation', 'add_right')
    right_new = ctx.method('EntityRight', 'new')
    room = ctx.call(room_default, [])
    w.field(room, 'Room', 'id').v = rid
    w.field(room, 'Room', 'mdate').v = w.i64(tag + '_mdate')
    rc = Cell(room)
    ev = RoomEvents(rid)

    def must_ok(r):
        if r.variant != 0:
            raise PathEnd()

    def entries(v):
        # int n: n entries with symbolic key/entity from the alphabet; list: concrete names (no fork while building)
        if isinstance(v, int):
            return [None] * v
        return list(v)

    def pick(name, concrete, alphabet, kind, n=None):
        if concrete is None:
            return w.atom(name, alphabet, kind, n=n)
        for a in alphabet:
            if a.lit.startswith(concrete.encode()):
                return a
        return S(lit=concrete, text=(kind == 'str'))

    for i, kc in enumerate(entries(spec.get('admins', 0))):
        k = pick('%s_adm%d_key' % (tag, i), kc, keys, 'bytes', 33)
        d = w.i64('%s_adm%d_date' % (tag, i))
        e = w.boolean('%s_adm%d_en' % (tag, i))
        must_ok(ctx.call(add_admin, [Ref(rc, True), w.user(k, d, e)]))
        ev.admins.append((k, d, e))
    for gi, gs in enumerate(spec.get('groups', [])):
        gid = gids[gi] if gids else S(lit=('%s-G%d' % (tag, gi)).encode().ljust(16, b'.'))
        auth = ctx.call(auth_default, [])
        w.field(auth, 'Authorisation', 'id').v = gid
        w.field(auth, 'Authorisation', 'mdate').v = w.i64('%s_g%d_mdate' % (tag, gi))
        ac = Cell(auth)
        ge = GroupEvents(gid)
        for i, kc in enumerate(entries(gs.get('users', 0))):
            k = pick('%s_g%d_usr%d_key' % (tag, gi, i), kc, keys, 'bytes', 33)
            d = w.i64('%s_g%d_usr%d_date' % (tag, gi, i))
            e = w.boolean('%s_g%d_usr%d_en' % (tag, gi, i))
            must_ok(ctx.call(add_user, [Ref(ac, True), w.user(k, d, e)]))
            ge.users.append((k, d, e))
        for i, kc in enumerate(entries(gs.get('user_admins', 0))):
            k = pick('%s_g%d_uad%d_key' % (tag, gi, i), kc, keys, 'bytes', 33)
            d = w.i64('%s_g%d_uad%d_date' % (tag, gi, i))
            e = w.boolean('%s_g%d_uad%d_en' % (tag, gi, i))
            must_ok(ctx.call(add_user_admin, [Ref(ac, True), w.user(k, d, e)]))
            ge.user_admins.append((k, d, e))
        for i, kc in enumerate(entries(gs.get('rights', 0))):
            en = pick('%s_g%d_rgt%d_ent' % (tag, gi, i), kc, ents, 'str')
            d = w.i64('%s_g%d_rgt%d_date' % (tag, gi, i))
            ms = w.boolean('%s_g%d_rgt%d_ms' % (tag, gi, i))
            ma = w.boolean('%s_g%d_rgt%d_ma' % (tag, gi, i))
            right = ctx.call(right_new, [d, en, ms, ma])
            must_ok(ctx.call(add_right, [Ref(ac, True), right]))
            ge.rights.append((en, d, ms, ma))
        must_ok(ctx.call(add_auth, [Ref(rc, True), ac.v]))
        ev.groups.append(ge)
    return rc, ev


# ------------------------------------------------------------------------------ the oracle
# Plain z3 over the event tuples; none of the crate's code, no maps.

def latest_enabled(entries, key, date):
    """the last-inserted entry for `key` dated <= date exists and is enabled"""
    res = []
    for i, (k, d, e) in enumerate(entries):
        later = [znot(zand(seq(kj, key), ile(dj, date))) for (kj, dj, ej) in entries[i + 1:]]
        res.append(zand(seq(k, key), ile(d, date), zb(e), *later))
    return zor(*res)


def has_entry(entries, key):
    return zor(*[seq(k, key) for (k, d, e) in entries])


def right_lookup(rights, entity, date, which):
    """(found, flag) for the last-inserted right entry of `entity` dated <= date.
    flag follows the documented rule: all-rows right implies own-rows right."""
    found = []
    flag = []
    for i, (en, d, ms, ma) in enumerate(rights):
        later = [znot(zand(seq(ej, entity), ile(dj, date))) for (ej, dj, _, _) in rights[i + 1:]]
        here = zand(seq(en, entity), ile(d, date), *later)
        found.append(here)
        f = zor(zb(ms), zb(ma)) if which == 'self' else zb(ma)
        flag.append(zand(here, f))
    return zor(*found), zor(*flag)


WILDCARD = S(lit='*')


def group_can(ge, entity, date, which):
    f1, v1 = right_lookup(ge.rights, entity, date, which)
    f2, v2 = right_lookup(ge.rights, WILDCARD, date, which)
    return z3.If(f1, v1, z3.If(f2, v2, z3.BoolVal(False)))


def is_admin(ev, key, date):
    return latest_enabled(ev.admins, key, date)


def granted(ev, key, entity, date, which):
    adm = is_admin(ev, key, date)
    res = []
    for ge in ev.groups:
        member = zor(adm, latest_enabled(ge.users, key, date), latest_enabled(ge.user_admins, key, date))
        res.append(zand(member, group_can(ge, entity, date, which)))
    return zor(*res)


def is_member(ev, key, date):
    res = [is_admin(ev, key, date)]
    for ge in ev.groups:
        res.append(latest_enabled(ge.users, key, date))
        res.append(latest_enabled(ge.user_admins, key, date))
    return zor(*res)


def granted_in(rooms_ev, rid, key, entity, date, which):
    """room `rid` is one of the known rooms and grants the right"""
    return zor(*[zand(seq(rid, ev.id), granted(ev, key, entity, date, which)) for ev in rooms_ev])


# ------------------------------------------------------------------------------ model -> concrete

class Concretizer:
    """turn a z3 model into concrete, replayable values (atoms become readable byte strings)"""

    def __init__(self, model):
        self.m = model

    def atom(self, s, kind='str'):
        if s.lit is not None:
            return s.lit.decode('latin1')
        v = self.m.eval(s.atom, model_completion=True).as_long()
        lit = V._intern_rev.get(v)
        if lit is not None:
            return lit.decode('latin1')
        return 'sym#%d' % v

    def int(self, i):
        if i.concrete:
            return i.v
        v = self.m.eval(i.v, model_completion=True).as_long()
        return Int(i.bits, i.signed, v).v

    def bool(self, b):
        if isinstance(b, bool):
            return b
        return z3.is_true(self.m.eval(b, model_completion=True))

    def room(self, ev):
        return dict(id=self.atom(ev.id, 'room'),
                    admins=[[self.atom(k, 'key'), self.int(d), self.bool(e)] for k, d, e in ev.admins],
                    groups=[dict(id=self.atom(g.id, 'group'),
                                 users=[[self.atom(k, 'key'), self.int(d), self.bool(e)] for k, d, e in g.users],
                                 user_admins=[[self.atom(k, 'key'), self.int(d), self.bool(e)] for k, d, e in g.user_admins],
                                 rights=[[self.atom(en, 'ent'), self.int(d), self.bool(ms), self.bool(ma)] for en, d, ms, ma in g.rights])
                            for g in ev.groups])


def size_relation(m, size, max_size):
    """'lt' | 'eq' | 'gt' : how the row size compares to the limit in the model (the native replay
    reproduces the relation with the row's real serialised size)"""
    if z3.is_true(m.eval(z3.UGT(size.z(), max_size.z()), model_completion=True)):
        return 'gt'
    if z3.is_true(m.eval(size.z() == max_size.z(), model_completion=True)):
        return 'eq'
    return 'lt'
