"""C06 — a signature binds exactly one row and only its author can produce it.
The digest functions (Node::hash, Edge::hash, NodeDeletionEntry::sign/verify, EdgeDeletionEntry::sign/verify)
are executed from MIR with blake3 as a recorder: a digest is an injective function of the byte stream the
real code feeds to update().  "A signature valid for row a is valid for row b" <=> stream(a) = stream(b)."""
import itertools
import z3
from mirsym.interp import *
from mirsym.values import *
from mirsym.values import SEQ8, lit_seq
from mirsym.models import deref
from . import lib
from .lib import *

REQUIRED_WITNESSES = ['single-field-injective', 'stream-recorded']
BOUNDS = {
    'quick': 'two rows of the same or of different signed kinds (node, reference, node tombstone, reference tombstone); fixed fields fully symbolic (16-byte ids, 64-bit dates, '
             '33-byte keys), variable fields symbolic byte strings of <= 20 bytes (40 for cross-kind pairs) (text fields printable ASCII, non-empty where verify() demands it), every presence '
             'combination of the optional fields explored for the boundary classes listed in the evidence',
    'thorough': 'same with every presence combination of the optional node fields (variable fields <= 24 bytes for node/node pairs, <= 40 for the others)',
}
ASSUMPTIONS = [
    'blake3 is ideal (injective on byte streams); Ed25519 is ideal (a signature verifies for exactly the key and digest it was made for)',
    'serde_json::to_string on a String of printable ASCII without quote and backslash is the text between two quote characters; the JSON-is-an-object check of '
    'verify()/sign() is not part of the digest and is treated as satisfied',
    'collision witnesses are restricted to printable-ASCII text fields so that they can be replayed as real Strings',
]

KINDS = ['node', 'edge', 'node_tombstone', 'edge_tombstone']
# elements whose extent in the stream is not fixed by the format
VAR = {'node': ['room_id', '_entity', '_json', '_binary'], 'edge': ['src_entity', 'label'],
       'node_tombstone': ['entity'], 'edge_tombstone': ['src_entity', 'label']}


def bytes_sym(ctx, name, n=None, maxlen=None, minlen=0, ascii_=False, no_quote=False):
    """symbolic byte string of fixed length n, or of length minlen..maxlen"""
    v = ctx.fresh(name, SEQ8)
    if n is not None:
        ctx.add(z3.Length(v) == n)
        L = n
    else:
        ctx.add(z3.And(z3.Length(v) >= minlen, z3.Length(v) <= maxlen))
        L = maxlen
    if ascii_:
        for i in range(L):
            c = v[i]
            cond = z3.And(z3.UGE(c, 0x20), z3.ULE(c, 0x7e))
            if no_quote:
                cond = z3.And(cond, c != 0x22, c != 0x5c)
            ctx.add(z3.Implies(i < z3.Length(v), cond))
    return S(seq=v, text=ascii_)


class Row:
    pass


def mk_row(ctx, w, kind, tag, presence, L):
    """a symbolic row of the given kind; presence = dict(room=bool, json=bool, binary=bool) for nodes"""
    r = Row()
    r.kind, r.tag = kind, tag
    f = {}
    key = bytes_sym(ctx, tag + '_key', n=33)
    ctx.add(key.seq[0] == 1)
    f['verifying_key'] = key
    if kind == 'node':
        f['id'] = bytes_sym(ctx, tag + '_id', n=16)
        f['room_id'] = bytes_sym(ctx, tag + '_room', n=16) if presence.get('room') else None
        f['cdate'], f['mdate'] = w.i64(tag + '_cdate'), w.i64(tag + '_mdate')
        f['_entity'] = bytes_sym(ctx, tag + '_entity', maxlen=L, minlen=1, ascii_=True)
        f['_json'] = bytes_sym(ctx, tag + '_json', maxlen=min(L, 8), minlen=2, ascii_=True, no_quote=True) if presence.get('json') else None
        f['_binary'] = bytes_sym(ctx, tag + '_binary', maxlen=L, minlen=0) if presence.get('binary') else None
        r.value = w.node(id=f['id'], room_id=f['room_id'], cdate=f['cdate'], mdate=f['mdate'], entity=f['_entity'], author=key, json=f['_json'], binary=f['_binary'])
        r.order = ['id', 'room_id', 'cdate', 'mdate', '_entity', '_json', '_binary', 'verifying_key']
    elif kind == 'edge':
        f['src'], f['dest'] = bytes_sym(ctx, tag + '_src', n=16), bytes_sym(ctx, tag + '_dest', n=16)
        f['src_entity'] = bytes_sym(ctx, tag + '_se', maxlen=L, minlen=1, ascii_=True)
        f['label'] = bytes_sym(ctx, tag + '_label', maxlen=L, minlen=1, ascii_=True)
        f['cdate'] = w.i64(tag + '_cdate')
        r.value = w.edge(src=f['src'], src_entity=f['src_entity'], label=f['label'], dest=f['dest'], cdate=f['cdate'], author=key)
        r.order = ['src', 'src_entity', 'label', 'dest', 'cdate', 'verifying_key']
    elif kind == 'node_tombstone':
        f['room_id'], f['id'] = bytes_sym(ctx, tag + '_room', n=16), bytes_sym(ctx, tag + '_id', n=16)
        f['entity'] = bytes_sym(ctx, tag + '_entity', maxlen=L, minlen=0, ascii_=True)
        f['mdate'], f['deletion_date'] = w.i64(tag + '_mdate'), w.i64(tag + '_ddate')
        r.value = w.struct('NodeDeletionEntry', room_id=f['room_id'], id=f['id'], entity=f['entity'], mdate=f['mdate'], deletion_date=f['deletion_date'],
                           verifying_key=key, signature=S(lit=b''), entity_name=none())
        r.order = ['room_id', 'id', 'mdate', 'entity', 'deletion_date', 'verifying_key']
    else:
        f['room_id'], f['src'], f['dest'] = bytes_sym(ctx, tag + '_room', n=16), bytes_sym(ctx, tag + '_src', n=16), bytes_sym(ctx, tag + '_dest', n=16)
        f['src_entity'] = bytes_sym(ctx, tag + '_se', maxlen=L, minlen=0, ascii_=True)
        f['label'] = bytes_sym(ctx, tag + '_label', maxlen=L, minlen=0, ascii_=True)
        f['cdate'], f['deletion_date'] = w.i64(tag + '_cdate'), w.i64(tag + '_ddate')
        r.value = w.struct('EdgeDeletionEntry', room_id=f['room_id'], src=f['src'], src_entity=f['src_entity'], dest=f['dest'], label=f['label'], cdate=f['cdate'],
                           deletion_date=f['deletion_date'], verifying_key=key, signature=S(lit=b''), entity_name=none())
        r.order = ['room_id', 'src', 'src_entity', 'label', 'dest', 'cdate', 'deletion_date', 'verifying_key']
    r.f = f
    return r


def digest_stream(ctx, w, row):
    """run the REAL digest code of the row's kind and return the recorded stream as one z3 Seq"""
    ctx.events = [e for e in ctx.events if e[0] != 'digest']
    v = row.value
    if row.kind == 'node':
        res = ctx.exec_fn(ctx.method('Node', 'hash'), [Ref(Cell(v))])
        if res.variant != 0:
            raise PathEnd()
        pieces = deref(res.fields[0].v).data
    elif row.kind == 'edge':
        res = ctx.exec_fn(ctx.method('Edge', 'hash'), [Ref(Cell(v))])
        pieces = deref(res).data
    else:
        # tombstones: verify() recomputes the stream from the stored fields (the signature check itself is the ideal primitive)
        tname = 'NodeDeletionEntry' if row.kind == 'node_tombstone' else 'EdgeDeletionEntry'
        ctx.exec_fn(ctx.method(tname, 'verify'), [Ref(Cell(v))])
        dg = [e for e in ctx.events if e[0] == 'digest']
        if len(dg) != 1:
            raise Inconclusive('expected exactly one digest in %s::verify, saw %d' % (tname, len(dg)))
        pieces = dg[0][1]
    return pieces, seq_of(pieces)


def seq_of(pieces):
    parts = [deref(p).as_seq() for p in pieces]
    if not parts:
        return z3.Empty(SEQ8)
    return z3.Concat(*parts) if len(parts) > 1 else parts[0]


def field_eq(a, b):
    if a is None and b is None:
        return z3.BoolVal(True)
    if a is None or b is None:
        return z3.BoolVal(False)
    if isinstance(a, Int):
        return a.z() == b.z()
    return a.as_seq() == b.as_seq()


def shapes(tier):
    out = []
    L = 20 if tier == 'quick' else 40
    pres_all = [dict(room=r, json=j, binary=b) for r in (0, 1) for j in (0, 1) for b in (0, 1)]
    # (1) single-element injectivity, same kind: everything equal except one element (and, for optional ones, its presence)
    for kind in KINDS:
        out.append(dict(part='single', kind=kind, L=min(L, 8)))
    # (2) collisions between rows of one kind that differ in several elements (variable-extent boundaries)
    node_pairs = [(dict(room=0, json=0, binary=0), dict(room=0, json=0, binary=1)),     # _entity / _binary
                  (dict(room=1, json=0, binary=0), dict(room=0, json=0, binary=0)),     # room_id? / cdate,mdate,_entity
                  (dict(room=0, json=1, binary=0), dict(room=0, json=0, binary=1)),     # _json / _binary
                  (dict(room=0, json=1, binary=0), dict(room=0, json=0, binary=0))]     # _entity / _json
    if tier == 'thorough':
        node_pairs = [(a, b) for a in pres_all for b in pres_all]
    for pa, pb in node_pairs:
        out.append(dict(part='pair', kinds=('node', 'node'), pres=(pa, pb), L=min(L, 24)))
    out.append(dict(part='pair', kinds=('edge', 'edge'), pres=({}, {}), L=min(L, 8)))
    out.append(dict(part='pair', kinds=('node_tombstone', 'node_tombstone'), pres=({}, {}), L=min(L, 8)))
    out.append(dict(part='pair', kinds=('edge_tombstone', 'edge_tombstone'), pres=({}, {}), L=min(L, 8)))
    # (3) cross-kind: no domain separation between kinds
    for ka, kb in itertools.combinations(KINDS, 2):
        pa = dict(room=0, json=0, binary=0) if ka == 'node' else {}
        out.append(dict(part='pair', kinds=(ka, kb), pres=(pa, {}), L=max(L, 40)))
    # (4) what sign() hashes is what verify() hashes (tombstones build their stream twice)
    for kind in ('node_tombstone', 'edge_tombstone'):
        out.append(dict(part='sign_verify', kind=kind, L=6))
    # (5) the raw signing service
    out.append(dict(part='sign_oracle'))
    return out


def lit_seq(b):
    return z3.Concat(*[z3.Unit(z3.BitVecVal(x, 8)) for x in b])


SEQ8_ = z3.SeqSort(z3.BitVecSort(8))
JSON_OK = z3.Function('json_ok', SEQ8_, z3.BoolSort())
CANON = z3.Function('canonical_text', SEQ8_, SEQ8_)
LIT1, LIT2 = lit_seq(b'[1]'), lit_seq(b'[ 1]')


def steer(ctx, q, a, b):
    """a model of q; when the digest went through a parsed document, first the replayable instance of the library facts"""
    if getattr(ctx, 'canon_used', False) and a.f.get('_json') is not None and b.f.get('_json') is not None:
        try:
            m = ctx.check_sat(zand(q, a.f['_json'].seq == LIT1, b.f['_json'].seq == LIT2))
            if m is not None:
                return m
        except Inconclusive:
            ctx.stats.unknown -= 1
    return ctx.check_sat(q)


def explore(ctx, shape, tier, report):
    return {'single': explore_single, 'pair': explore_pair, 'sign_verify': explore_sign_verify, 'sign_oracle': explore_sign_oracle}[shape['part']](ctx, shape, tier, report)


def install_stubs(ctx):
    def stub_import(ctx_, args, ci, dt):
        return ok(Opaque('verifying_key'))

    def stub_verify(ctx_, args, ci, dt):
        return ok(UNIT)
    ctx.stubs['fn:import_verifying_key'] = stub_import
    ctx.stubs['fn:security::import_verifying_key'] = stub_import
    ctx.stubs['<dyn VerifyingKey as VerifyingKey>::verify'] = stub_verify
    ctx.json_quote_exact = True
    import mirsym.models as M

    # a digest that goes through a parsed document: parsing and re-serialising are uninterpreted (JSON_OK, CANON) plus two
    # true facts about serde_json that give the solver a replayable instance: "[1]" and "[ 1]" are the same document
    def stub_from_str(ctx_, args, ci, dt):
        v = deref(args[0])
        if not (isinstance(v, S) and v.seq is not None):
            return M.json_from_str(ctx_, args, ci, dt) if hasattr(M, 'json_from_str') else (_ for _ in ()).throw(Unsupported('serde_json::from_str of %r' % (v,)))
        ctx_.assumptions.add('serde_json::from_str / to_string of a parsed document are uninterpreted (json_ok, canonical_text); library facts used: '
                             '"[1]" and "[ 1]" parse to the same document whose compact text is "[1]" (confirmed by the native replay of every witness)')
        if not getattr(ctx_, '_canon_axioms', False) or ctx_._canon_axioms is not ctx_.pc:
            ctx_.add(z3.And(JSON_OK(LIT1), JSON_OK(LIT2), CANON(LIT1) == LIT1, CANON(LIT2) == LIT1))
        ctx_.canon_used = True
        if ctx_.branch(JSON_OK(v.seq)):
            return ok(Opaque('json-parsed', v.seq))
        return err(Opaque('serde_json::Error'))

    def stub_to_string(ctx_, args, ci, dt):
        v = deref(args[0])
        if isinstance(v, Opaque) and v.tag == 'json-parsed':
            return ok(S(seq=CANON(v.data), text=True))
        return M.json_to_string(ctx_, args, ci, dt)
    ctx.stubs['serde_json::from_str'] = stub_from_str
    ctx.stubs['from_str'] = stub_from_str
    ctx.stubs['serde_json::to_string'] = stub_to_string
    ctx.stubs['to_string'] = stub_to_string
    ctx.canon_used = False

    def json_quote_seq(ctx_, v):
        q = z3.Unit(z3.BitVecVal(0x22, 8))
        return S(seq=z3.Concat(q, v.as_seq(), q), text=True)
    M.json_quote_seq = json_quote_seq


def explore_single(ctx, shape, tier, report):
    """rows equal in every element but one => different streams.  Catches a field dropped from a digest."""
    install_stubs(ctx)
    kind = shape['kind']
    pres_list = [dict(room=1, json=1, binary=1)] if kind == 'node' else [{}]

    def path(ctx):
        w = World(ctx)
        for pres in pres_list:
            a = mk_row(ctx, w, kind, 'a', pres, shape['L'])
            b = mk_row(ctx, w, kind, 'b', pres, shape['L'])
            pa, sa = digest_stream(ctx, w, a)
            pb, sb = digest_stream(ctx, w, b)
            report.witness('stream-recorded')
            info = dict(part='single', shape=shape, a=a, b=b)
            for fld in a.order:
                others = [field_eq(a.f[x], b.f[x]) for x in a.order if x != fld]
                q = zand(znot(field_eq(a.f[fld], b.f[fld])), sa == sb, *others)
                m = steer(ctx, q, a, b)
                report.path(m is None)
                if m is not None:
                    info['differ'] = [fld]
                    report.violation(ctx, m, 'digest-ignores-field', info)
                else:
                    report.witness('single-field-injective')
            # presence of an optional element alone
            if kind == 'node':
                for opt in ('room_id', '_json', '_binary'):
                    p2 = dict(pres)
                    p2[{'room_id': 'room', '_json': 'json', '_binary': 'binary'}[opt]] = 0
                    c = mk_row(ctx, w, kind, 'c_' + opt, p2, shape['L'])
                    pc, sc_ = digest_stream(ctx, w, c)
                    others = [field_eq(a.f[x], c.f[x]) for x in a.order if x != opt]
                    m = ctx.check_sat(zand(sa == sc_, *others))
                    report.path(m is None)
                    if m is not None:
                        info2 = dict(part='single', shape=shape, a=a, b=c, differ=[opt])
                        report.violation(ctx, m, 'digest-ignores-field', info2)
                    else:
                        report.witness('single-field-injective')

    ctx.explore(path)


def solve_collision(ctx, cond, sa, sb, quick_ms=None):
    """decide pc AND cond (a stream equation).  z3's sequence solver sometimes stalls on satisfiable stream
    equations with many free lengths: after a short attempt, length vectors are enumerated (an integer
    problem) and the equation is decided with the lengths fixed.  Returns a model, None (unsat), or raises
    Inconclusive."""
    if quick_ms is None:
        quick_ms = 15000 if ctx.timeout_ms <= 60000 else 90000
    ctx.solver.set('timeout', quick_ms)
    try:
        try:
            return ctx.check_sat(cond)
        except Inconclusive:
            ctx.stats.unknown -= 1
    finally:
        ctx.solver.set('timeout', ctx.timeout_ms)
    # lengths first
    lens = []

    def collect(e):
        if z3.is_app(e) and e.decl().kind() == z3.Z3_OP_SEQ_CONCAT:
            for ch in e.children():
                collect(ch)
        elif z3.is_const(e) and e.decl().kind() == z3.Z3_OP_UNINTERPRETED:
            lens.append(e)
    collect(sa)
    collect(sb)
    ls = z3.Solver()
    ls.set('timeout', 20000)
    for c in ctx.pc:
        # keep only the pure length constraints
        txt = c.sexpr()
        if 'seq.len' in txt and 'seq.nth' not in txt and 'seq.unit' not in txt and 'str.++' not in txt and 'seq.++' not in txt:
            ls.add(c)
    ls.add(z3.Length(sa) == z3.Length(sb))
    tried = 0
    unknown = 0
    while tried < 40:
        r = ls.check()
        if r == z3.unsat:
            if unknown == 0:
                # no length vector is left: the stream equation has no solution (the length constraints kept here are a
                # subset of the path condition, so their unsatisfiability carries over)
                ctx.stats.unsat += 1
                return None
            break
        if r != z3.sat:
            break
        tried += 1
        lm = ls.model()
        fix = [z3.Length(v) == lm.eval(z3.Length(v), model_completion=True) for v in lens]
        try:
            m = ctx.check_sat(z3.And(cond, *fix))
        except Inconclusive:
            ctx.stats.unknown -= 1
            unknown += 1
            m = None
        if m is not None:
            return m
        ls.add(z3.Or(*[z3.Length(v) != lm.eval(z3.Length(v), model_completion=True) for v in lens]))
    raise Inconclusive('stream equation not decided (sequence solver gave up; %d length vectors tried, %d undecided)' % (tried, unknown))


def differing(m, a, b):
    out = []
    if a.kind != b.kind:
        return ['kind']
    for x in a.order:
        if not z3.is_true(m.eval(field_eq(a.f[x], b.f[x]), model_completion=True)):
            out.append(x)
    return out


def explore_pair(ctx, shape, tier, report):
    install_stubs(ctx)
    ka, kb = shape['kinds']

    def path(ctx):
        w = World(ctx)
        a = mk_row(ctx, w, ka, 'a', shape['pres'][0], shape['L'])
        b = mk_row(ctx, w, kb, 'b', shape['pres'][1], shape['L'])
        pa, sa = digest_stream(ctx, w, a)
        pb, sb = digest_stream(ctx, w, b)
        report.witness('stream-recorded')
        info = dict(part='pair', shape=shape, a=a, b=b)
        if ka == kb:
            ne = zor(*[znot(field_eq(a.f[x], b.f[x])) for x in a.order])
        else:
            ne = z3.BoolVal(True)
        m = solve_collision(ctx, zand(ne, sa == sb), sa, sb)
        report.path(m is None)
        if m is not None:
            info['differ'] = differing(m, a, b)
            report.violation(ctx, m, 'digest-collision', info)
            if ka == kb:
                # the class found above may be a recorded finding: ask again with that class excluded
                # (rows that agree on every variable-extent element and differ in fixed fields only)
                same_var = [field_eq(a.f[x], b.f[x]) for x in VAR[ka]]
                m2 = ctx.check_sat(zand(ne, sa == sb, *same_var))
                report.path(m2 is None)
                if m2 is not None:
                    info2 = dict(info)
                    info2['differ'] = differing(m2, a, b)
                    report.violation(ctx, m2, 'digest-collision', info2)
                else:
                    report.witness('single-field-injective')

    ctx.explore(path)


def explore_sign_verify(ctx, shape, tier, report):
    """the stream hashed when a tombstone is built equals the stream verify() recomputes from the stored tombstone"""
    install_stubs(ctx)
    kind = shape['kind']

    def path(ctx):
        w = World(ctx)
        key = bytes_sym(ctx, 'key', n=33)
        room = bytes_sym(ctx, 'room', n=16)
        ddate = w.i64('ddate')
        if kind == 'node_tombstone':
            node = w.node(id=bytes_sym(ctx, 'id', n=16), room_id=room, cdate=w.i64('cdate'), mdate=w.i64('mdate'),
                          entity=bytes_sym(ctx, 'entity', maxlen=shape['L'], minlen=1, ascii_=True), author=bytes_sym(ctx, 'nauthor', n=33))
            entry = ctx.exec_fn(ctx.method('NodeDeletionEntry', 'build'), [room, Ref(Cell(node)), ddate, Ref(Cell(w.signing_key(key)))])
            tname = 'NodeDeletionEntry'
        else:
            edge = w.edge(src=bytes_sym(ctx, 'src', n=16), src_entity=bytes_sym(ctx, 'se', maxlen=shape['L'], minlen=1, ascii_=True),
                          label=bytes_sym(ctx, 'label', maxlen=shape['L'], minlen=1, ascii_=True), dest=bytes_sym(ctx, 'dest', n=16), cdate=w.i64('cdate'),
                          author=bytes_sym(ctx, 'eauthor', n=33))
            entry = ctx.exec_fn(ctx.method('EdgeDeletionEntry', 'build'), [room, Ref(Cell(edge)), ddate, Ref(Cell(w.signing_key(key)))])
            tname = 'EdgeDeletionEntry'
        signed = [e for e in ctx.events if e[0] == 'sign']
        if len(signed) != 1:
            raise Inconclusive('build() did not sign exactly once')
        msg = signed[0][2]
        if msg.label is None or msg.label[0] != 'digest':
            raise Inconclusive('build() signed something that is not a digest')
        s_sign = seq_of(msg.label[1])
        ctx.events = []
        ctx.exec_fn(ctx.method(tname, 'verify'), [Ref(Cell(entry))])
        dg = [e for e in ctx.events if e[0] == 'digest']
        s_verify = seq_of(dg[0][1])
        report.witness('stream-recorded')
        m = ctx.check_sat(s_sign != s_verify)
        report.path(m is None)
        if m is not None:
            report.violation(ctx, m, 'sign-verify-mismatch', dict(part='sign_verify', shape=shape))
        else:
            report.witness('single-field-injective')
        # the tombstone is signed by the key it names
        if not (signed[0][1] is key or z3.is_true(z3.simplify(signed[0][1].as_seq() == key.as_seq()))):
            report.violation(ctx, ctx.check_sat(True), 'tombstone-signed-with-another-key', dict(part='sign_verify', shape=shape))

    ctx.explore(path)


def explore_sign_oracle(ctx, shape, tier, report):
    """AuthorisationMessage::Sign: what exactly gets signed with the data key when a peer submits `data`"""
    pm = ctx.method('AuthorisationService', 'process_message')

    def oneshot_send(ctx_, args, ci, dt):
        ctx_.events.append(('reply', args[1]))
        return ok(UNIT)
    ctx.models['Sender::send'] = oneshot_send

    def path(ctx):
        w = World(ctx)
        key = bytes_sym(ctx, 'key', n=33)
        data = bytes_sym(ctx, 'challenge', maxlen=40, minlen=0)
        variants = [v[0] for v in w.src.enum_variants('AuthorisationMessage')]
        msg = Enum('AuthorisationMessage', variants.index('Sign'), 'Sign', [Cell(data), Cell(Opaque('oneshot-sender'))])
        ra = w.struct('RoomAuthorisations', signing_key=w.signing_key(key), rooms=MapV(), max_node_size=w.u64('max'))
        co = ctx.exec_fn(pm, [msg, Ref(Cell(ra), True), Ref(Cell(Opaque('writer'))), Ref(Cell(Opaque('events'))), Ref(Cell(Opaque('self-sender')))])
        p = ctx.poll(co)
        if not (isinstance(p, Enum) and p.vname == 'Ready'):
            raise Inconclusive('the Sign arm suspended before answering')
        signed = [e for e in ctx.events if e[0] == 'sign']
        report.witness('stream-recorded')
        report.witness('single-field-injective')
        if len(signed) != 1:
            raise Inconclusive('the Sign arm did not sign exactly once')
        msg_signed = signed[0][2]
        # can the signed message be the 32-byte digest of a row chosen by the requester?
        digest = ctx.fresh('row_digest', SEQ8)
        m = ctx.check_sat(z3.And(z3.Length(digest) == 32, msg_signed.as_seq() == digest))
        report.path(m is None)
        if m is not None:
            report.violation(ctx, m, 'sign-oracle', dict(part='sign_oracle', shape=shape, data=data, key=key))

    ctx.explore(path)


# ------------------------------------------------------------------------------------------------ scenarios

def conc_bytes(m, s):
    if s is None:
        return None
    if isinstance(s, Int):
        v = m.eval(s.z(), model_completion=True).as_long()
        return Int(s.bits, s.signed, v).v
    e = m.eval(s.as_seq(), model_completion=True)
    n = m.eval(z3.Length(s.as_seq()), model_completion=True).as_long()
    out = []
    for i in range(n):
        out.append(m.eval(s.as_seq()[i], model_completion=True).as_long())
    return out


def row_json(m, r):
    d = dict(kind=r.kind)
    for k, v in r.f.items():
        d[k] = conc_bytes(m, v)
    return d


def classify(a, b, differ):
    if a.kind != b.kind:
        return 'cross-kind'
    var = [x for x in differ if x in VAR[a.kind]]
    if len(differ) == 1 or not var:
        return 'fields:' + '+'.join(differ)
    return 'variable-extent-boundaries'


def scenario(ctx, m, kind, info):
    part = info['part']
    if part in ('single', 'pair'):
        a, b = info['a'], info['b']
        sc = dict(kind='digest_pair', property='C06', a=row_json(m, a), b=row_json(m, b), differ=info.get('differ'))
        sc['expect'] = dict(transplant_verifies=True, rows_differ=True)
        cls = classify(a, b, info.get('differ') or [])
        sc['what'] = 'a signature made for a %s verifies on a different %s (they differ in: %s)' % (a.kind, b.kind, ','.join(info.get('differ') or []))
        sc['signature'] = 'digest-not-injective:%s/%s:%s' % (a.kind, b.kind, cls)
        return sc
    if part == 'sign_oracle':
        sc = dict(kind='sign_oracle', property='C06', challenge=conc_bytes(m, info['data']))
        sc['expect'] = dict(signature_verifies_as_row=True)
        sc['what'] = 'the signing service signs caller-supplied bytes as they are: a 32-byte challenge equal to the digest of a row yields a valid signature for that row'
        sc['signature'] = 'sign-oracle:raw-challenge'
        return sc
    sc = dict(kind='not-replayable', property='C06', part=part, shape=info.get('shape'), expect=dict(result='none'))
    sc['what'] = kind
    sc['signature'] = '%s:%s' % (kind, info['shape'].get('kind'))
    return sc
