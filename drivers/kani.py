"""E2: run Kani proof harnesses (in-crate, cfg(kani), `-Z stubbing`) on /repo's current tree and
parse the per-check verdicts.  A harness counts as proved only if every check is SUCCESS, nothing is
UNDETERMINED, no unwinding assertion failed and every cover! is SATISFIED."""
import json
import os
import re
import subprocess
import time

REPO = os.environ.get('VERIF_REPO', '/repo')
VCACHE = os.environ.get('VCACHE', '/var/cache/discret-verif')


def run_harness(harness, timeout_s=600, playback=True):
    env = dict(os.environ)
    env['CARGO_NET_OFFLINE'] = 'true'
    env.pop('RUSTFLAGS', None)
    cmd = ['cargo', 'kani', '--target-dir', os.path.join(VCACHE, 'target-kani'), '-Z', 'stubbing', '--harness', harness,
           '--output-format', 'regular']
    if playback:
        cmd += ['-Z', 'concrete-playback', '--concrete-playback=print']
    t0 = time.time()
    try:
        p = subprocess.run(['bash', '-c', 'ulimit -v 16000000; exec "$@"', 'x'] + cmd, cwd=REPO, env=env, stdout=subprocess.PIPE,
                           stderr=subprocess.STDOUT, text=True, timeout=timeout_s)
        out = p.stdout
        rc = p.returncode
    except subprocess.TimeoutExpired as e:
        out = (e.stdout or b'').decode() if isinstance(e.stdout, bytes) else (e.stdout or '')
        rc = 'timeout'
    wall = time.time() - t0
    res = dict(harness=harness, rc=rc, wall_s=round(wall, 1), checks=0, failed=[], undetermined=0, covers_satisfied=0, covers_total=0,
               stubs=[], verdict='inconclusive', playback=None, verification_time=None)
    if rc == 'timeout':
        res['verdict'] = 'timeout'
        return res
    res['stubs'] = re.findall(r'- Stub: (.*)', out)
    checks = re.split(r'\nCheck \d+: ', out)
    for c in checks[1:]:
        head = c.split('\n', 1)[0]
        st = re.search(r'- Status: (\w+)', c)
        desc = re.search(r'- Description: "(.*)"', c)
        loc = re.search(r'- Location: (.*)', c)
        if not st:
            continue
        res['checks'] += 1
        status = st.group(1)
        if '.cover.' in head:
            res['covers_total'] += 1
            if status == 'SATISFIED':
                res['covers_satisfied'] += 1
            continue
        if status == 'FAILURE':
            res['failed'].append(dict(check=head, description=desc.group(1) if desc else '', location=(loc.group(1) if loc else '').strip()))
        elif status in ('UNDETERMINED', 'UNKNOWN'):
            res['undetermined'] += 1
    m = re.search(r'Verification Time: ([\d.]+)s', out)
    if m:
        res['verification_time'] = float(m.group(1))
    # failures caused only by unsupported constructs on unreachable allocation-failure paths are still failures for Kani;
    # we only count property failures located in the crate or the harness
    if 'VERIFICATION:- SUCCESSFUL' in out and not res['failed'] and res['undetermined'] == 0:
        res['verdict'] = 'proved' if res['covers_satisfied'] == res['covers_total'] else 'vacuous'
    elif 'VERIFICATION:- FAILED' in out:
        res['verdict'] = 'failed'
    # concrete playback values, one block per check
    res['playback'] = []
    for blk in out.split('Concrete playback unit test for')[1:]:
        cm = re.search(r'Check for `(\w+)`: "(.*)"', blk)
        vm = re.search(r'let concrete_vals: Vec<Vec<u8>> = vec!\[(.*?)\];\s*kani::concrete_playback_run', blk, re.S)
        if not cm or not vm:
            continue
        body = re.sub(r'//[^\n]*', '', vm.group(1))
        vecs = re.findall(r'vec!\[([\d,\s]*)\]', body)
        vals = [[int(x) for x in v.split(',') if x.strip()] for v in vecs]
        res['playback'].append(dict(kind=cm.group(1), description=cm.group(2), values=vals))
    res['log_tail'] = out[-1500:] if res['verdict'] in ('inconclusive',) else ''
    return res
