"""C02 — rows received from peers are stored only if their author had the right (validation kernel).
Entry points from MIR: RoomAuthorisations::validate_node, validate_edge_deletions, validate_node_deletions."""
import itertools
import z3
from mirsym.interp import *
from mirsym.values import *
from mirsym.models import deref
from .lib import *
from .c01 import KEYS, ROOMS, ENTS, SPECS, SYS_ENTS

REQUIRED_WITNESSES = ['accepted', 'rejected', 'deletion-accepted', 'deletion-rejected']
BOUNDS = {
    'quick': 'room configurations as C01 quick; one incoming node with every combination of node present/absent, entity name present/absent, '
             'local version none / same room / other room, previous author none / any; batches of <= 2 deletion records with stored author none / any; '
             'dates, flags, sizes, ids unconstrained',
    'thorough': 'as quick with the 3 room configurations of C01 thorough and batches of <= 3 deletion records',
}
ASSUMPTIONS = [
    'signature verification of incoming rows is done before these functions (signature_verification_service); it is not part of this kernel',
    'bincode::serialized_size(node) is an arbitrary u64 per node',
]

# node shape: (has_node, has_room, has_entity_name, old_room 0 none/1 some, old_key 0 none/1 some)
NODE_SHAPES = [x for x in itertools.product((0, 1), (0, 1), (0, 1), (0, 1), (0, 1))]


def shapes(tier):
    out = []
    for i in range(len(SPECS[tier])):
        for ns in NODE_SHAPES:
            out.append(dict(part='node', spec=i, node=ns))
        nmax = 2 if tier == 'quick' else 3
        for kind in ('edge', 'node'):
            for n in range(1, nmax + 1):
                for cmb in itertools.product((0, 1, 2), repeat=n):   # 0: no entity name, 1: stored author unknown, 2: stored author known
                    out.append(dict(part='deletions', spec=i, kind=kind, rows=cmb))
    return out


def mk_state(ctx, w, spec1, spec2):
    owner = w.atom('local_user', KEYS, 'bytes', n=33)
    r1, ev1 = build_room(w, ROOMS[0], spec1, KEYS, ENTS, 'r1')
    r2, ev2 = build_room(w, ROOMS[1], spec2, KEYS, ENTS, 'r2')
    rooms = MapV([[ROOMS[0], r1], [ROOMS[1], r2]])
    max_size = w.u64('max_node_size')
    ra = w.struct('RoomAuthorisations', signing_key=w.signing_key(owner), rooms=rooms, max_node_size=max_size)
    return ra, [ev1, ev2], max_size, owner


def explore_node(ctx, shape, tier, report):
    spec1, spec2 = SPECS[tier][shape['spec']]
    vn = ctx.method('RoomAuthorisations', 'validate_node')
    has_node, has_room, has_name, old_room_k, old_key_k = shape['node']

    def path(ctx):
        w = World(ctx)
        ctx.node_size_list = []
        ra, rooms_ev, max_size, owner = mk_state(ctx, w, spec1, spec2)
        nid = w.atom('id', None, 'uid', n=16)
        author = w.atom('author', KEYS, 'bytes', n=33)
        mdate = w.i64('mdate')
        room = w.atom('room', ROOMS, 'uid', n=16) if has_room else None
        name = w.atom('entity_name', None, 'str') if has_name else None
        node = None
        size = None
        if has_node:
            node = w.node(id=nid, room_id=room, cdate=w.i64('cdate'), mdate=mdate, entity=w.atom('short', None, 'str'), author=author,
                          json=w.atom('json', None, 'str'))
            size = w.u64('size')
            ctx.node_size_list.append((node, size))
        old_room = w.atom('old_room', ROOMS, 'uid', n=16) if old_room_k else None
        old_key = w.atom('old_key', KEYS, 'bytes', n=33) if old_key_k else None
        old_mdate = w.i64('old_mdate')
        nti = w.struct('NodeToInsert', id=nid, node=w.opt(node), entity_name=w.opt(name), index=True, old_room_id=w.opt(old_room),
                       old_mdate=old_mdate, old_verifying_key=w.opt(old_key), old_local_id=none(), old_fts_str=none(), node_fts_str=none())
        info = dict(part='node', rooms=rooms_ev, owner=owner, max_size=max_size, author=author, mdate=mdate, room=room, name=name,
                    has_node=has_node, size=size, old_room=old_room, old_key=old_key, nid=nid, old_mdate=old_mdate)
        try:
            res = ctx.call(vn, [Ref(Cell(ra)), Ref(Cell(nti))])
        except Panic as p:
            report.panic(ctx, w, p, info)
            return
        # validate_node is pure and boolean: it was merged into one term; decide both polarities
        acc = zb(res)
        if not has_node or room is None or name is None:
            prop_body = z3.BoolVal(False)
        else:
            self_right = z3.BoolVal(True) if old_key is None else seq(old_key, author)
            need = []
            for rid in [room] + ([old_room] if old_room is not None else []):
                need.append(z3.If(self_right, granted_in(rooms_ev, rid, author, name, mdate, 'self'),
                                  granted_in(rooms_ev, rid, author, name, mdate, 'all')))
            prop_body = zand(z3.ULE(size.z(), max_size.z()), *need)
        info['prop'] = prop_body
        m_acc = ctx.check_sat(acc)
        m_rej = ctx.check_sat(znot(acc))
        report.path(m_acc is not None)
        for mm, exp in ((m_acc, True), (m_rej, False)):
            if mm is not None and report.want_sample(exp):
                sc = scenario_node(ctx, mm, 'sample', info)
                sc['expect'] = dict(result=exp)
                report.sample(sc)
        if m_acc is not None:
            report.witness('accepted')
        if m_rej is not None:
            report.witness('rejected')
        m = ctx.check_sat(zand(acc, znot(prop_body)))
        if m is not None:
            report.violation(ctx, m, 'node-accepted-without-right', info)

    ctx.explore(path)


def scenario_node(ctx, m, kind, info):
    c = Concretizer(m)
    rel = size_relation(m, info['size'], info['max_size']) if info['has_node'] else 'lt'
    over = rel == 'gt' 
    room = None if info['room'] is None else c.atom(info['room'], 'room')
    sc = dict(kind='validate_node', property='C02', rooms=[c.room(ev) for ev in info['rooms']], caller=c.atom(info['owner'], 'key'),
              size_rel=rel, id=c.atom(info['nid'], 'uid'),
              node=None if not info['has_node'] else dict(room=room, cdate=0, mdate=c.int(info['mdate']), short='9.9', author=c.atom(info['author'], 'key'),
                                                         json='{}'),
              entity_name=None if info['name'] is None else c.atom(info['name'], 'ent'),
              old_room=None if info['old_room'] is None else c.atom(info['old_room'], 'room'),
              old_key=None if info['old_key'] is None else c.atom(info['old_key'], 'key'), old_mdate=c.int(info['old_mdate']))
    if kind == 'sample':
        return sc
    if kind == 'panic':
        sc['expect'] = dict(result='panic')
        return sc
    roles = []
    ev = lambda t: z3.is_true(m.eval(zb(t), model_completion=True))
    if not info['has_node'] or info['room'] is None or info['name'] is None:
        roles.append('incomplete-row')
    else:
        if rel != 'lt':
            roles.append('size-' + rel)
        self_right = True if info['old_key'] is None else ev(seq(info['old_key'], info['author']))
        wch = 'self' if self_right else 'all'
        if not ev(granted_in(info['rooms'], info['room'], info['author'], info['name'], info['mdate'], wch)):
            roles.append('destination-room')
        if info['old_room'] is not None and not ev(granted_in(info['rooms'], info['old_room'], info['author'], info['name'], info['mdate'], wch)):
            roles.append('departing-room')
    sc['expect'] = dict(result=True)
    sc['what'] = 'validate_node accepts a row lacking: ' + ','.join(roles)
    sc['signature'] = 'node-accepted-without-right:' + '+'.join(roles)
    return sc


def explore_deletions(ctx, shape, tier, report):
    spec1, spec2 = SPECS[tier][shape['spec']]
    kind = shape['kind']
    fn = ctx.method('RoomAuthorisations', 'validate_edge_deletions' if kind == 'edge' else 'validate_node_deletions')
    ctx.map_order = 'all'

    def mk_entry(w, i, rowkind):
        tag = 'd%d' % i
        room = w.atom(tag + '_room', ROOMS, 'uid', n=16)
        author = w.atom(tag + '_author', KEYS, 'bytes', n=33)
        ddate = w.i64(tag + '_deldate')
        name = w.atom(tag + '_name', None, 'str') if rowkind != 0 else None
        stored = w.atom(tag + '_stored', KEYS, 'bytes', n=33) if rowkind == 2 else None
        rid = w.atom(tag + '_id', None, 'uid', n=16)
        if kind == 'edge':
            e = w.struct('EdgeDeletionEntry', room_id=room, src=rid, src_entity=w.atom(tag + '_se', None, 'str'), dest=w.atom(tag + '_dest', None, 'uid', n=16),
                         label=w.atom(tag + '_label', None, 'str'), cdate=w.i64(tag + '_cdate'), deletion_date=ddate, verifying_key=author,
                         signature=S(lit=b'sig%d' % i), entity_name=w.opt(name))
        else:
            e = w.struct('NodeDeletionEntry', room_id=room, id=rid, entity=w.atom(tag + '_se', None, 'str'), mdate=w.i64(tag + '_mdate'),
                         deletion_date=ddate, verifying_key=author, signature=S(lit=b'sig%d' % i), entity_name=w.opt(name))
        return dict(entry=e, room=room, author=author, ddate=ddate, name=name, stored=stored, id=rid, i=i)

    def call(ctx, w, ra, rows):
        if kind == 'edge':
            arg = VecV([Cell(tup(clone_val(r['entry']), w.opt(r['stored']))) for r in rows])
        else:
            arg = MapV([[r['id'], Cell(tup(clone_val(r['entry']), w.opt(r['stored'])))] for r in rows])
        return ctx.exec_fn(fn, [Ref(Cell(ra)), arg])

    def path(ctx):
        w = World(ctx)
        ra, rooms_ev, max_size, owner = mk_state(ctx, w, spec1, spec2)
        rows = [mk_entry(w, i, rk) for i, rk in enumerate(shape['rows'])]
        if kind == 'node':
            for a, b in itertools.combinations(rows, 2):
                ctx.add(znot(seq(a['id'], b['id'])))     # keys of the incoming map are distinct
        info = dict(part='deletions', kind=kind, rooms=rooms_ev, owner=owner, rows=rows)
        try:
            res = call(ctx, w, ra, rows)
        except Panic as p:
            report.panic(ctx, w, p, info)
            return
        out = res.elems
        # identify returned entries by their (concrete, distinct) signature bytes
        sigf = 'signature'
        tname = 'EdgeDeletionEntry' if kind == 'edge' else 'NodeDeletionEntry'
        returned = [deref(w.field(c.v, tname, sigf).v).lit for c in out]
        info['returned'] = returned
        accepted_any = len(out) > 0
        report.path(accepted_any)
        report.witness('deletion-accepted' if accepted_any else 'deletion-rejected')
        if report.want_sample(accepted_any):
            ms = ctx.check_sat(True)
            if ms is not None:
                sc = scenario_deletions(ctx, ms, 'sample', info)
                sc['expect'] = dict(result=sorted(x.decode() for x in returned))
                report.sample(sc)
        # (a) what comes back is a sub-multiset of what went in, fields untouched
        bad_identity = len(set(returned)) != len(returned) or any(x not in [b'sig%d' % r['i'] for r in rows] for x in returned)
        if bad_identity:
            report.violation(ctx, ctx.check_sat(True), 'deletion-record-invented', info)
            return
        obl = []
        for r in rows:
            if (b'sig%d' % r['i']) not in returned:
                continue
            if r['name'] is None:
                o = z3.BoolVal(False)
            else:
                self_right = z3.BoolVal(True) if r['stored'] is None else seq(r['stored'], r['author'])
                o = z3.If(self_right, granted_in(rooms_ev, r['room'], r['author'], r['name'], r['ddate'], 'self'),
                          granted_in(rooms_ev, r['room'], r['author'], r['name'], r['ddate'], 'all'))
            r['obligation'] = o
            obl.append(o)
            # returned entry is unchanged
            c = [c for c in out if deref(w.field(c.v, tname, sigf).v).lit == b'sig%d' % r['i']][0]
            for fname in ('room_id', 'verifying_key'):
                obl.append(seq(w.field(c.v, tname, fname).v, w.field(r['entry'], tname, fname).v))
            obl.append(w.field(c.v, tname, 'deletion_date').v.z() == r['ddate'].z())
        m = ctx.check_sat(znot(zand(*obl)))
        if m is not None:
            report.violation(ctx, m, 'deletion-accepted-without-right', info)
            return
        # (b) non-interference: the verdict on row 0 does not depend on the rest of the batch
        if len(rows) > 1:
            try:
                res1 = call(ctx, w, ra, rows[:1])
            except Panic as p:
                report.panic(ctx, w, p, info)
                return
            alone = len(res1.elems) > 0
            inbatch = b'sig0' in returned
            if alone != inbatch:
                report.violation(ctx, ctx.check_sat(True), 'deletion-verdict-depends-on-batch', info)

    try:
        ctx.explore(path)
    finally:
        ctx.map_order = 'fixed'


def scenario_deletions(ctx, m, kind, info):
    c = Concretizer(m)
    rows = []
    roles = []
    for r in info['rows']:
        rows.append(dict(sig='sig%d' % r['i'], room=c.atom(r['room'], 'room'), author=c.atom(r['author'], 'key'), deletion_date=c.int(r['ddate']),
                         entity_name=None if r['name'] is None else c.atom(r['name'], 'ent'), stored=None if r['stored'] is None else c.atom(r['stored'], 'key'),
                         id=c.atom(r['id'], 'uid')))
        if 'obligation' in r and kind != 'sample' and z3.is_false(m.eval(zb(r['obligation']), model_completion=True)):
            roles.append('no-right' if r['name'] is not None else 'no-entity-name')
    sc = dict(kind='validate_deletions_remote', property='C02', which=info['kind'], rooms=[c.room(ev) for ev in info['rooms']],
              caller=c.atom(info['owner'], 'key'), rows=rows)
    if kind == 'sample':
        return sc
    if kind == 'panic':
        sc['expect'] = dict(result='panic')
        return sc
    sc['expect'] = dict(result=sorted(x.decode() for x in info.get('returned', [])))
    sc['what'] = 'validate_%s_deletions: %s %s' % (info['kind'], kind, ','.join(sorted(set(roles))))
    sc['signature'] = '%s:%s:%s' % (kind, info['kind'], '+'.join(sorted(set(roles))))
    return sc


def explore(ctx, shape, tier, report):
    return {'node': explore_node, 'deletions': explore_deletions}[shape['part']](ctx, shape, tier, report)


def scenario(ctx, m, kind, info):
    return {'node': scenario_node, 'deletions': scenario_deletions}[info['part']](ctx, m, kind, info)
