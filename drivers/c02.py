"""C02 — rows received from peers are stored only if their author had the right (validation kernel).
Entry points from MIR: RoomAuthorisations::validate_node, validate_edge_deletions, validate_node_deletions, and the AddEdges arm of
AuthorisationService::process_message (the only validation received references get)."""
import itertools
import z3
from mirsym.interp import *
from mirsym.values import *
from mirsym.models import deref, A
from .lib import *
from .c01 import KEYS, ROOMS, ENTS, SPECS, SYS_ENTS

REQUIRED_WITNESSES = ['accepted', 'rejected', 'deletion-accepted', 'deletion-rejected', 'edge-forwarded', 'edge-refused']
BOUNDS = {
    'quick': 'room configurations as C01 quick; one incoming node with every combination of node present/absent, entity name present/absent, '
             'local version none / same room / other room, previous author none / any; batches of <= 2 deletion records with stored author none / any; '
             'dates, flags, sizes, ids unconstrained; batches of 1-2 received references (author, entity name, date, source row symbolic) for a symbolic room',
    'thorough': 'the first room configuration of C01 thorough, deletion batches of <= 2 records, pipelines with two references / two deletion records '
                '(the two larger configurations did not finish in 90 minutes on 16 cores and are not part of the claim)',
}
ASSUMPTIONS = [
    'signature verification of incoming rows is done before these functions (signature_verification_service); it is not part of this kernel',
    'bincode::serialized_size(node) is an arbitrary u64 per node',
]

# node shape: (has_node, has_room, has_entity_name, old_room 0 none/1 some, old_key 0 none/1 some)
NODE_SHAPES = [x for x in itertools.product((0, 1), (0, 1), (0, 1), (0, 1), (0, 1))]


def shapes(tier):
    out = []
    # thorough is deliberately limited to the first configuration: with the other two the run did not finish in 90 minutes on 16 cores
    for i in range(1 if tier == 'thorough' else len(SPECS[tier])):
        for ns in NODE_SHAPES:
            out.append(dict(part='node', spec=i, node=ns))
        # thorough: three-record batches on the first configuration, single records on the two-group configuration (anything larger ran past 90 minutes)
        nmax = 2        # three-record batches did not finish in 25 minutes even on the first configuration
        for kind in ('edge', 'node'):
            for n in range(1, nmax + 1):
                for cmb in itertools.product((0, 1, 2), repeat=n):   # 0: no entity name, 1: stored author unknown, 2: stored author known
                    out.append(dict(part='deletions', spec=i, kind=kind, rows=cmb))
        for n in (1, 2):
            if n == 1 or i == 0:                   # batches of two on the first configuration only (the thorough run did not finish in an hour otherwise)
                out.append(dict(part='edges', spec=i, n=n))
            if n == 1 or (tier == 'thorough' and i == 0):      # two records: 27 000 paths, 14 minutes
                out.append(dict(part='edge_deletion_records', spec=i, n=n))
    return out


def mk_state(ctx, w, spec1, spec2):
    owner = w.atom('local_user', KEYS, 'bytes', n=33)
    r1, ev1 = build_room(w, ROOMS[0], spec1, KEYS, ENTS, 'r1')
    r2, ev2 = build_room(w, ROOMS[1], spec2, KEYS, ENTS, 'r2')
    rooms = MapV([[ROOMS[0], r1], [ROOMS[1], r2]])
    max_size = w.u64('max_node_size')
    ra = w.struct('RoomAuthorisations', signing_key=w.signing_key(owner), rooms=rooms, max_node_size=max_size)
    return ra, [ev1, ev2], max_size, owner


def explore_node(ctx, shape, tier, report):
    spec1, spec2 = SPECS[tier][shape['spec']]
    vn = ctx.method('RoomAuthorisations', 'validate_node')
    has_node, has_room, has_name, old_room_k, old_key_k = shape['node']

    def path(ctx):
        w = World(ctx)
        ctx.node_size_list = []
        ra, rooms_ev, max_size, owner = mk_state(ctx, w, spec1, spec2)
        nid = w.atom('id', None, 'uid', n=16)
        author = w.atom('author', KEYS, 'bytes', n=33)
        mdate = w.i64('mdate')
        room = w.atom('room', ROOMS, 'uid', n=16) if has_room else None
        name = w.atom('entity_name', None, 'str') if has_name else None
        node = None
        size = None
        if has_node:
            node = w.node(id=nid, room_id=room, cdate=w.i64('cdate'), mdate=mdate, entity=w.atom('short', None, 'str'), author=author,
                          json=w.atom('json', None, 'str'))
            size = w.u64('size')
            ctx.node_size_list.append((node, size))
        old_room = w.atom('old_room', ROOMS, 'uid', n=16) if old_room_k else None
        old_key = w.atom('old_key', KEYS, 'bytes', n=33) if old_key_k else None
        old_mdate = w.i64('old_mdate')
        nti = w.struct('NodeToInsert', id=nid, node=w.opt(node), entity_name=w.opt(name), index=True, old_room_id=w.opt(old_room),
                       old_mdate=old_mdate, old_verifying_key=w.opt(old_key), old_local_id=none(), old_fts_str=none(), node_fts_str=none())
        info = dict(part='node', rooms=rooms_ev, owner=owner, max_size=max_size, author=author, mdate=mdate, room=room, name=name,
                    has_node=has_node, size=size, old_room=old_room, old_key=old_key, nid=nid, old_mdate=old_mdate)
        try:
            res = ctx.call(vn, [Ref(Cell(ra)), Ref(Cell(nti))])
        except Panic as p:
            report.panic(ctx, w, p, info)
            return
        # validate_node is pure and boolean: it was merged into one term; decide both polarities
        acc = zb(res)
        if not has_node or room is None or name is None:
            prop_body = z3.BoolVal(False)
        else:
            self_right = z3.BoolVal(True) if old_key is None else seq(old_key, author)
            need = []
            for rid in [room] + ([old_room] if old_room is not None else []):
                need.append(z3.If(self_right, granted_in(rooms_ev, rid, author, name, mdate, 'self'),
                                  granted_in(rooms_ev, rid, author, name, mdate, 'all')))
            prop_body = zand(z3.ULE(size.z(), max_size.z()), *need)
        info['prop'] = prop_body
        m_acc = ctx.check_sat(acc)
        m_rej = ctx.check_sat(znot(acc))
        report.path(m_acc is not None)
        for mm, exp in ((m_acc, True), (m_rej, False)):
            if mm is not None and report.want_sample(exp):
                sc = scenario_node(ctx, mm, 'sample', info)
                sc['expect'] = dict(result=exp)
                report.sample(sc)
        if m_acc is not None:
            report.witness('accepted')
        if m_rej is not None:
            report.witness('rejected')
        m = ctx.check_sat(zand(acc, znot(prop_body)))
        if m is not None:
            report.violation(ctx, m, 'node-accepted-without-right', info)

    ctx.explore(path)


def scenario_node(ctx, m, kind, info):
    c = Concretizer(m)
    rel = size_relation(m, info['size'], info['max_size']) if info['has_node'] else 'lt'
    over = rel == 'gt' 
    room = None if info['room'] is None else c.atom(info['room'], 'room')
    sc = dict(kind='validate_node', property='C02', rooms=[c.room(ev) for ev in info['rooms']], caller=c.atom(info['owner'], 'key'),
              size_rel=rel, id=c.atom(info['nid'], 'uid'),
              node=None if not info['has_node'] else dict(room=room, cdate=0, mdate=c.int(info['mdate']), short='9.9', author=c.atom(info['author'], 'key'),
                                                         json='{}'),
              entity_name=None if info['name'] is None else c.atom(info['name'], 'ent'),
              old_room=None if info['old_room'] is None else c.atom(info['old_room'], 'room'),
              old_key=None if info['old_key'] is None else c.atom(info['old_key'], 'key'), old_mdate=c.int(info['old_mdate']))
    if kind == 'sample':
        return sc
    if kind == 'panic':
        sc['expect'] = dict(result='panic')
        return sc
    roles = []
    ev = lambda t: z3.is_true(m.eval(zb(t), model_completion=True))
    if not info['has_node'] or info['room'] is None or info['name'] is None:
        roles.append('incomplete-row')
    else:
        if rel != 'lt':
            roles.append('size-' + rel)
        self_right = True if info['old_key'] is None else ev(seq(info['old_key'], info['author']))
        wch = 'self' if self_right else 'all'
        if not ev(granted_in(info['rooms'], info['room'], info['author'], info['name'], info['mdate'], wch)):
            roles.append('destination-room')
        if info['old_room'] is not None and not ev(granted_in(info['rooms'], info['old_room'], info['author'], info['name'], info['mdate'], wch)):
            roles.append('departing-room')
    sc['expect'] = dict(result=True)
    sc['what'] = 'validate_node accepts a row lacking: ' + ','.join(roles)
    sc['signature'] = 'node-accepted-without-right:' + '+'.join(roles)
    return sc


def explore_deletions(ctx, shape, tier, report):
    spec1, spec2 = SPECS[tier][shape['spec']]
    kind = shape['kind']
    fn = ctx.method('RoomAuthorisations', 'validate_edge_deletions' if kind == 'edge' else 'validate_node_deletions')
    ctx.map_order = 'all'

    def mk_entry(w, i, rowkind):
        tag = 'd%d' % i
        room = w.atom(tag + '_room', ROOMS, 'uid', n=16)
        author = w.atom(tag + '_author', KEYS, 'bytes', n=33)
        ddate = w.i64(tag + '_deldate')
        name = w.atom(tag + '_name', None, 'str') if rowkind != 0 else None
        stored = w.atom(tag + '_stored', KEYS, 'bytes', n=33) if rowkind == 2 else None
        rid = w.atom(tag + '_id', None, 'uid', n=16)
        if kind == 'edge':
            e = w.struct('EdgeDeletionEntry', room_id=room, src=rid, src_entity=w.atom(tag + '_se', None, 'str'), dest=w.atom(tag + '_dest', None, 'uid', n=16),
                         label=w.atom(tag + '_label', None, 'str'), cdate=w.i64(tag + '_cdate'), deletion_date=ddate, verifying_key=author,
                         signature=S(lit=b'sig%d' % i), entity_name=w.opt(name))
        else:
            e = w.struct('NodeDeletionEntry', room_id=room, id=rid, entity=w.atom(tag + '_se', None, 'str'), mdate=w.i64(tag + '_mdate'),
                         deletion_date=ddate, verifying_key=author, signature=S(lit=b'sig%d' % i), entity_name=w.opt(name))
        return dict(entry=e, room=room, author=author, ddate=ddate, name=name, stored=stored, id=rid, i=i)

    def call(ctx, w, ra, rows):
        if kind == 'edge':
            arg = VecV([Cell(tup(clone_val(r['entry']), w.opt(r['stored']))) for r in rows])
        else:
            arg = MapV([[r['id'], Cell(tup(clone_val(r['entry']), w.opt(r['stored'])))] for r in rows])
        return ctx.exec_fn(fn, [Ref(Cell(ra)), arg])

    def path(ctx):
        w = World(ctx)
        ra, rooms_ev, max_size, owner = mk_state(ctx, w, spec1, spec2)
        rows = [mk_entry(w, i, rk) for i, rk in enumerate(shape['rows'])]
        if kind == 'node':
            for a, b in itertools.combinations(rows, 2):
                ctx.add(znot(seq(a['id'], b['id'])))     # keys of the incoming map are distinct
        info = dict(part='deletions', kind=kind, rooms=rooms_ev, owner=owner, rows=rows)
        try:
            res = call(ctx, w, ra, rows)
        except Panic as p:
            report.panic(ctx, w, p, info)
            return
        out = res.elems
        # identify returned entries by their (concrete, distinct) signature bytes
        sigf = 'signature'
        tname = 'EdgeDeletionEntry' if kind == 'edge' else 'NodeDeletionEntry'
        returned = [deref(w.field(c.v, tname, sigf).v).lit for c in out]
        info['returned'] = returned
        accepted_any = len(out) > 0
        report.path(accepted_any)
        report.witness('deletion-accepted' if accepted_any else 'deletion-rejected')
        if report.want_sample(accepted_any):
            ms = ctx.check_sat(True)
            if ms is not None:
                sc = scenario_deletions(ctx, ms, 'sample', info)
                sc['expect'] = dict(result=sorted(x.decode() for x in returned))
                report.sample(sc)
        # (a) what comes back is a sub-multiset of what went in, fields untouched
        bad_identity = len(set(returned)) != len(returned) or any(x not in [b'sig%d' % r['i'] for r in rows] for x in returned)
        if bad_identity:
            report.violation(ctx, ctx.check_sat(True), 'deletion-record-invented', info)
            return
        obl = []
        for r in rows:
            if (b'sig%d' % r['i']) not in returned:
                continue
            if r['name'] is None:
                o = z3.BoolVal(False)
            else:
                self_right = z3.BoolVal(True) if r['stored'] is None else seq(r['stored'], r['author'])
                o = z3.If(self_right, granted_in(rooms_ev, r['room'], r['author'], r['name'], r['ddate'], 'self'),
                          granted_in(rooms_ev, r['room'], r['author'], r['name'], r['ddate'], 'all'))
            r['obligation'] = o
            obl.append(o)
            # returned entry is unchanged
            c = [c for c in out if deref(w.field(c.v, tname, sigf).v).lit == b'sig%d' % r['i']][0]
            for fname in ('room_id', 'verifying_key'):
                obl.append(seq(w.field(c.v, tname, fname).v, w.field(r['entry'], tname, fname).v))
            obl.append(w.field(c.v, tname, 'deletion_date').v.z() == r['ddate'].z())
        m = ctx.check_sat(znot(zand(*obl)))
        if m is not None:
            report.violation(ctx, m, 'deletion-accepted-without-right', info)
            return
        # (b) non-interference: the verdict on row 0 does not depend on the rest of the batch
        if len(rows) > 1:
            try:
                res1 = call(ctx, w, ra, rows[:1])
            except Panic as p:
                report.panic(ctx, w, p, info)
                return
            alone = len(res1.elems) > 0
            inbatch = b'sig0' in returned
            if alone != inbatch:
                report.violation(ctx, ctx.check_sat(True), 'deletion-verdict-depends-on-batch', info)

    try:
        ctx.explore(path)
    finally:
        ctx.map_order = 'fixed'


def scenario_deletions(ctx, m, kind, info):
    c = Concretizer(m)
    rows = []
    roles = []
    for r in info['rows']:
        rows.append(dict(sig='sig%d' % r['i'], room=c.atom(r['room'], 'room'), author=c.atom(r['author'], 'key'), deletion_date=c.int(r['ddate']),
                         entity_name=None if r['name'] is None else c.atom(r['name'], 'ent'), stored=None if r['stored'] is None else c.atom(r['stored'], 'key'),
                         id=c.atom(r['id'], 'uid')))
        if 'obligation' in r and kind != 'sample' and z3.is_false(m.eval(zb(r['obligation']), model_completion=True)):
            roles.append('no-right' if r['name'] is not None else 'no-entity-name')
    sc = dict(kind='validate_deletions_remote', property='C02', which=info['kind'], rooms=[c.room(ev) for ev in info['rooms']],
              caller=c.atom(info['owner'], 'key'), rows=rows)
    if kind == 'sample':
        return sc
    if kind == 'panic':
        sc['expect'] = dict(result='panic')
        return sc
    sc['expect'] = dict(result=sorted(x.decode() for x in info.get('returned', [])))
    sc['what'] = 'validate_%s_deletions: %s %s' % (info['kind'], kind, ','.join(sorted(set(roles))))
    sc['signature'] = '%s:%s:%s' % (kind, info['kind'], '+'.join(sorted(set(roles))))
    return sc


SRC_ROOM = z3.Function('room_of_stored_row', A, A)     # what the database knows about the source row of a reference
SRC_ENTITY = z3.Function('entity_of_stored_row', A, A)
SRC_EXISTS = z3.Function('row_is_stored', A, z3.BoolSort())


EDGE_STORED = z3.Function('reference_is_stored', A, A, A, z3.BoolSort())      # (src, label, dest)
EDGE_AUTHOR = z3.Function('author_of_stored_reference', A, A, A, A)
SRC_HAS_ROOM = z3.Function('stored_row_has_a_room', A, z3.BoolSort())


def reader_stubs(st):
    """the reader connection handed to closures: SELECT <cols> FROM _node|_edge WHERE col=? AND ... answered from uninterpreted facts about what is stored"""
    import re as _re

    def prepare(ctx_, args, ci, dt):
        sql = deref(args[1])
        text = ' '.join(sql.lit.decode().split()) if isinstance(sql, S) and sql.lit is not None else ''
        m_ = _re.match(r'SELECT (.*?) FROM (_node|_edge) WHERE (.*)$', text, _re.I)
        if not m_:
            raise Unsupported('reader SQL not modelled: %s' % text[:120])
        select = [c.strip() for c in m_.group(1).split(',')]
        table = m_.group(2)
        conds = [c.strip() for c in _re.split(r'\s+AND\s+', m_.group(3), flags=_re.I)]
        cols = []
        for c in conds:
            mm = _re.match(r'^(\w+)\s*=\s*\?$', c)
            if not mm:
                raise Unsupported('reader SQL condition not modelled: %s' % c)
            cols.append(mm.group(1))
        allowed = ('id', '_entity', 'room_id') if table == '_node' else ('src', 'src_entity', 'label', 'dest', 'cdate')
        if any(c not in allowed for c in cols):
            raise Unsupported('reader SQL condition not modelled: %s' % text[:120])
        st.setdefault('sql', []).append(text)
        return ok(Opaque('statement', dict(table=table, select=select, cols=cols)))

    def query_row(ctx_, args, ci, dt):
        stt = deref(args[0]).data
        params = args[1]
        vals = [deref(c.v) for c in params.fields] if isinstance(params, Struct) else [deref(params)]
        if len(vals) != len(stt['cols']):
            raise Unsupported('parameter count does not match the statement')
        byc = dict(zip(stt['cols'], vals))
        norow = err(Enum('Error', -1, 'QueryReturnedNoRows', []))
        if stt['table'] == '_node':
            if 'id' not in byc:
                raise Unsupported('lookup in _node without the row id')
            ida = byc['id'].as_atom()
            cond = [SRC_EXISTS(ida)]
            if 'room_id' in byc:
                cond.append(z3.And(SRC_HAS_ROOM(ida), SRC_ROOM(ida) == byc['room_id'].as_atom()))
            if '_entity' in byc:
                cond.append(SRC_ENTITY(ida) == byc['_entity'].as_atom())
            if not ctx_.branch(z3.And(*cond)):
                return norow
            row = []
            for c in stt['select']:
                if c == '1':
                    row.append(Int(64, True, 1))
                elif c == 'room_id':
                    row.append(some(S(atom=SRC_ROOM(ida), n=16)) if ctx_.branch(SRC_HAS_ROOM(ida)) else none())
                elif c == 'id':
                    row.append(byc['id'])
                else:
                    raise Unsupported('column %s of _node is not modelled' % c)
        else:
            if not all(k in byc for k in ('src', 'label', 'dest')):
                raise Unsupported('lookup in _edge without src / label / dest')
            key = (byc['src'].as_atom(), byc['label'].as_atom(), byc['dest'].as_atom())
            if not ctx_.branch(EDGE_STORED(*key)):
                return norow
            row = []
            for c in stt['select']:
                if c == 'verifying_key':
                    row.append(S(atom=EDGE_AUTHOR(*key), n=33))
                elif c == '1':
                    row.append(Int(64, True, 1))
                else:
                    raise Unsupported('column %s of _edge is not modelled' % c)
        return ctx_.call_value(args[2], [Ref(Cell(Opaque('row', row)))])

    def row_get(ctx_, args, ci, dt):
        row = deref(args[0]).data
        return ok(clone_val(row[ctx_.concretize_int(args[1], 'column')]))

    def optional(ctx_, args, ci, dt):
        r = args[0]
        if r.variant == 0:
            return ok(some(r.fields[0].v))
        e = r.fields[0].v
        if isinstance(e, Enum) and e.vname == 'QueryReturnedNoRows':
            return ok(none())
        return r
    return {'Connection::prepare_cached': prepare, 'Connection::prepare': prepare, 'CachedStatement::query_row': query_row, 'Statement::query_row': query_row,
            'Row::get': row_get, '<Result as OptionalExtension>::optional': optional, 'OptionalExtension::optional': optional}


def explore_edges(ctx, shape, tier, report):
    """the whole ingestion of received references: GraphDatabase::add_edges (name lookup, and whatever it asks the reader connection)
    -> AuthorisationMessage::AddEdges -> the AddEdges arm of process_message -> what reaches the writer"""
    import re as _re
    from mirsym.models import SegmentEnd
    spec1, spec2 = SPECS[tier][shape['spec']]
    pm = ctx.method('AuthorisationService', 'process_message')
    add_edges = ctx.method('GraphDatabase', 'add_edges')
    events = []
    hooks = {}

    def writer_send(ctx_, args):
        events.append(('write', args[1]))
        return Opaque('ready-future', ok(UNIT))
    hooks[ctx.method('BufferedDatabaseWriter', 'send').name] = writer_send

    def auth_send(ctx_, args):
        events.append(('auth', args[1]))
        return Opaque('ready-future', ok(UNIT))
    hooks[ctx.method('AuthorisationService', 'send').name] = auth_send

    def auth_send_blocking(ctx_, args):
        events.append(('auth', args[1]))
        return ok(UNIT)
    hooks[ctx.method('AuthorisationService', 'send_blocking').name] = auth_send_blocking

    def reader_send_async(ctx_, args):
        # the closure handed to the reader pool is run at once on the modelled connection
        clo = args[1]
        ctx_.call_value(clo, [Ref(Cell(Opaque('connection')))])
        return Opaque('ready-future', ok(UNIT))
    hooks[ctx.method('DatabaseReader', 'send_async').name] = reader_send_async

    def name_for(ctx_, args):
        short = deref(args[1])
        ent = st['entity_of_short'].get(id(short))
        if ent is None:
            for k, v in st['shorts']:
                if s_eq(k, short) is True:
                    ent = v
        if ent is None:
            raise Unsupported('name_for on a short name the driver did not supply')
        if ent is False:
            return none()
        return some(clone_val(ent))
    hooks[ctx.method('DataModel', 'name_for').name] = name_for
    st = {}

    stubs = reader_stubs(st)
    saved_send = ctx.models.get('Sender::send')

    def reply_send(ctx_, args, ci, dt):
        events.append(('reply', args[1]))
        return ok(UNIT)

    def path(ctx):
        w = World(ctx)
        del events[:]
        st.clear()
        st['entity_of_short'], st['shorts'] = {}, []
        ctx.node_size_list = []
        ra, rooms_ev, max_size, owner = mk_state(ctx, w, spec1, spec2)
        room = w.atom('sync_room', ROOMS, 'uid', n=16)
        edges, specs = [], []
        for i in range(shape['n']):
            author = w.atom('e%d_author' % i, KEYS, 'bytes', n=33)
            ename = w.atom('e%d_entity' % i, ENTS, 'str')
            cdate = w.i64('e%d_cdate' % i)
            src = w.atom('e%d_src' % i, None, 'uid', n=16)
            short = S(lit='s%d' % i, text=True)
            st['shorts'].append((short, ename))
            e = w.edge(src=src, src_entity=short, label=S(lit='L%d' % i, text=True), dest=w.atom('e%d_dest' % i, None, 'uid', n=16), cdate=cdate, author=author)
            edges.append(e)
            specs.append(dict(author=author, entity=ename, cdate=cdate, src=src, edge=e, short=short))
        info = dict(part='edges', shape=shape, rooms=rooms_ev, room=room, specs=specs)

        def label_of(e):
            return deref(w.field(e, 'Edge', 'label').v).lit      # concrete per received reference: used to attribute what is forwarded
        try:
            # stage 1: the database service
            fields = w.src.struct_fields('GraphDatabase')
            vals = {f: Opaque('gdb-' + f) for f in fields}
            vals['graph_database'] = Struct('Database', [Cell(Opaque('reader')), Cell(Opaque('writer'))])
            vals['auth_service'] = Struct('AuthorisationService', [Cell(Opaque('auth-sender'))])
            gdb = w.struct('GraphDatabase', **vals)
            co = ctx.exec_fn(add_edges, [Ref(Cell(gdb)), room, VecV([Cell(x) for x in edges]), Opaque('oneshot-sender')])
            try:
                ctx.poll(co)
            except SegmentEnd:
                pass
            msgs = [e for e in events if e[0] == 'auth']
            if any(e[0] == 'reply' for e in events) and not msgs:
                report.path(False)
                report.witness('edge-refused')
                return
            if len(msgs) != 1 or msgs[0][1].vname != 'AddEdges':
                raise Inconclusive('add_edges did not hand exactly one AddEdges message to the authorisation service')
            # stage 2: the authorisation service
            co = ctx.exec_fn(pm, [msgs[0][1], Ref(Cell(ra), True), Ref(Cell(Opaque('database-writer'))), Ref(Cell(Opaque('event-service'))), Ref(Cell(Opaque('self-sender')))])
            try:
                ctx.poll(co)
            except SegmentEnd:
                pass
        except Panic as p:
            report.panic(ctx, w, p, info)
            return
        writes = [e for e in events if e[0] == 'write']
        forwarded = []
        for wv in writes:
            m_ = wv[1]
            if isinstance(m_, Enum) and m_.vname == 'Edges':
                forwarded = [c.v for c in deref(m_.fields[0].v).elems]
        if any(label_of(f) not in [label_of(sp['edge']) for sp in specs] for f in forwarded):
            raise Inconclusive('a forwarded reference is not one of the received ones: the driver cannot attribute it')
        report.path(bool(forwarded))
        report.witness('edge-forwarded' if forwarded else 'edge-refused')
        info['forwarded'] = len(forwarded)
        if len(specs) == 1 and report.want_sample(bool(forwarded)):
            sp = specs[0]
            # replayable instances: the name lookup succeeds and the source row exists, in the synchronised room or in another one
            ms = ctx.check_sat(zand(SRC_EXISTS(sp['src'].as_atom()), SRC_HAS_ROOM(sp['src'].as_atom()), SRC_ENTITY(sp['src'].as_atom()) == sp['short'].as_atom()))
            if ms is not None:
                ev = lambda t: z3.is_true(ms.eval(zb(t), model_completion=True))
                sc = dict(kind='received_edge_foreign_source', property='C02',
                          author_has_right=ev(granted_in(rooms_ev, room, sp['author'], sp['entity'], sp['cdate'], 'self')),
                          source_in_room=ev(zand(SRC_HAS_ROOM(sp['src'].as_atom()), SRC_ROOM(sp['src'].as_atom()) == room.as_atom())), expect=dict(stored=bool(forwarded)))
                report.sample(sc)
        for sp in specs:
            is_fwd = z3.BoolVal(any(label_of(f) == label_of(sp['edge']) for f in forwarded))
            right = granted_in(rooms_ev, room, sp['author'], sp['entity'], sp['cdate'], 'self')
            in_room = zand(SRC_EXISTS(sp['src'].as_atom()), SRC_HAS_ROOM(sp['src'].as_atom()), SRC_ROOM(sp['src'].as_atom()) == room.as_atom())
            m = ctx.check_sat(zand(is_fwd, znot(right)))
            if m is not None:
                info['culprit'] = sp
                info['problem'] = 'no-right'
                report.violation(ctx, m, 'edge-accepted-without-right', info)
                return
            m = ctx.check_sat(zand(znot(is_fwd), right, in_room, SRC_ENTITY(sp['src'].as_atom()) == sp['short'].as_atom())) if len(specs) == 1 else None
            if m is not None:
                info['culprit'] = sp
                info['problem'] = 'refused-with-right'
                report.violation(ctx, m, 'edge-refused-although-granted', info)
                return
            # the source row of a stored reference belongs to the room being synchronised
            m = ctx.check_sat(zand(is_fwd, znot(in_room)))
            if m is not None:
                info['culprit'] = sp
                info['problem'] = 'source-row-in-another-room'
                report.violation(ctx, m, 'edge-accepted-without-right', info)
                return

    ctx.call_hooks.update(hooks)
    ctx.stubs.update(stubs)
    ctx.models['Sender::send'] = reply_send
    try:
        ctx.explore(path)
    finally:
        for k in hooks:
            ctx.call_hooks.pop(k, None)
        for k in stubs:
            ctx.stubs.pop(k, None)
        if saved_send is None:
            ctx.models.pop('Sender::send', None)
        else:
            ctx.models['Sender::send'] = saved_send


def explore_edge_deletion_records(ctx, shape, tier, report):
    """the whole ingestion of received reference-deletion records: GraphDatabase::delete_edges (name lookup, the closure run on the reader
    connection: EdgeDeletionEntry::with_source_authors) -> AuthorisationMessage::DeleteEdges -> validate_edge_deletions -> the write message"""
    from mirsym.models import SegmentEnd
    spec1, spec2 = SPECS[tier][shape['spec']]
    pm = ctx.method('AuthorisationService', 'process_message')
    delete_edges = ctx.method('GraphDatabase', 'delete_edges')
    events = []
    hooks = {}
    st = {}

    def writer_send(ctx_, args):
        events.append(('write', args[1]))
        return Opaque('ready-future', ok(UNIT))
    hooks[ctx.method('BufferedDatabaseWriter', 'send').name] = writer_send

    def auth_send(ctx_, args):
        events.append(('auth', args[1]))
        return Opaque('ready-future', ok(UNIT))
    hooks[ctx.method('AuthorisationService', 'send').name] = auth_send

    def auth_send_blocking(ctx_, args):
        events.append(('auth', args[1]))
        return ok(UNIT)
    hooks[ctx.method('AuthorisationService', 'send_blocking').name] = auth_send_blocking

    def reader_send_async(ctx_, args):
        ctx_.call_value(args[1], [Ref(Cell(Opaque('connection')))])
        return Opaque('ready-future', ok(UNIT))
    hooks[ctx.method('DatabaseReader', 'send_async').name] = reader_send_async

    def name_for(ctx_, args):
        short = deref(args[1])
        for k, v in st['shorts']:
            if s_eq(k, short) is True:
                return some(clone_val(v))
        raise Unsupported('name_for on a short name the driver did not supply')
    hooks[ctx.method('DataModel', 'name_for').name] = name_for
    stubs = reader_stubs(st)
    saved_send = ctx.models.get('Sender::send')

    def reply_send(ctx_, args, ci, dt):
        events.append(('reply', args[1]))
        return ok(UNIT)

    def path(ctx):
        w = World(ctx)
        del events[:]
        st.clear()
        st['shorts'] = []
        ctx.node_size_list = []
        ra, rooms_ev, max_size, owner = mk_state(ctx, w, spec1, spec2)
        entries, specs = [], []
        for i in range(shape['n']):
            author = w.atom('d%d_author' % i, KEYS, 'bytes', n=33)
            ename = w.atom('d%d_entity' % i, ENTS, 'str')
            ddate = w.i64('d%d_ddate' % i)
            room = w.atom('d%d_room' % i, ROOMS, 'uid', n=16)
            src = w.atom('d%d_src' % i, None, 'uid', n=16)
            dest = w.atom('d%d_dest' % i, None, 'uid', n=16)
            short = S(lit='s%d' % i, text=True)
            label = S(lit='L%d' % i, text=True)
            st['shorts'].append((short, ename))
            e = w.struct('EdgeDeletionEntry', room_id=room, src=src, src_entity=short, dest=dest, label=label, cdate=w.i64('d%d_cdate' % i), deletion_date=ddate,
                         verifying_key=author, signature=S(lit=b'sig'), entity_name=none())
            entries.append(e)
            specs.append(dict(author=author, entity=ename, ddate=ddate, room=room, src=src, dest=dest, short=short, label=label))
        info = dict(part='edge_deletion_records', shape=shape, rooms=rooms_ev, specs=specs)
        try:
            fields = w.src.struct_fields('GraphDatabase')
            vals = {f: Opaque('gdb-' + f) for f in fields}
            vals['graph_database'] = Struct('Database', [Cell(Opaque('reader')), Cell(Opaque('writer'))])
            vals['auth_service'] = Struct('AuthorisationService', [Cell(Opaque('auth-sender'))])
            gdb = w.struct('GraphDatabase', **vals)
            co = ctx.exec_fn(delete_edges, [Ref(Cell(gdb)), VecV([Cell(x) for x in entries]), Opaque('oneshot-sender')])
            try:
                ctx.poll(co)
            except SegmentEnd:
                pass
            msgs = [e for e in events if e[0] == 'auth']
            if len(msgs) != 1 or msgs[0][1].vname != 'DeleteEdges':
                raise Inconclusive('delete_edges did not hand exactly one DeleteEdges message to the authorisation service')
            co = ctx.exec_fn(pm, [msgs[0][1], Ref(Cell(ra), True), Ref(Cell(Opaque('database-writer'))), Ref(Cell(Opaque('event-service'))), Ref(Cell(Opaque('self-sender')))])
            try:
                ctx.poll(co)
            except SegmentEnd:
                pass
        except Panic as p:
            report.panic(ctx, w, p, info)
            return
        forwarded = []
        for wv in [e for e in events if e[0] == 'write']:
            m_ = wv[1]
            if isinstance(m_, Enum) and m_.vname == 'DeleteEdges':
                forwarded = [c.v for c in deref(m_.fields[0].v).elems]

        def label_of(e):
            return deref(w.field(e, 'EdgeDeletionEntry', 'label').v).lit
        known = [sp['label'].lit for sp in specs]
        if any(label_of(f) not in known for f in forwarded):
            raise Inconclusive('a forwarded record is not one of the received ones: the driver cannot attribute it')
        report.path(bool(forwarded))
        report.witness('deletion-accepted' if forwarded else 'deletion-rejected')
        info['forwarded'] = len(forwarded)
        if len(specs) == 1 and report.want_sample(bool(forwarded)):
            sp = specs[0]
            key = (sp['src'].as_atom(), sp['label'].as_atom(), sp['dest'].as_atom())
            # replayable instances: the reference is stored, written by the local user; its source row is stored in a room
            ms = ctx.check_sat(zand(SRC_EXISTS(sp['src'].as_atom()), SRC_HAS_ROOM(sp['src'].as_atom()), SRC_ENTITY(sp['src'].as_atom()) == sp['short'].as_atom(),
                                    EDGE_STORED(*key), EDGE_AUTHOR(*key) != sp['author'].as_atom()))
            if ms is not None:
                ev = lambda t: z3.is_true(ms.eval(zb(t), model_completion=True))
                report.sample(dict(kind='received_edge_deletion_foreign_source', property='C02',
                                   author_has_right=ev(granted_in(rooms_ev, sp['room'], sp['author'], sp['entity'], sp['ddate'], 'all')),
                                   source_in_room=ev(SRC_ROOM(sp['src'].as_atom()) == sp['room'].as_atom()), expect=dict(deleted=bool(forwarded))))
        for sp in specs:
            is_fwd = z3.BoolVal(any(label_of(f) == sp['label'].lit for f in forwarded))
            srca = sp['src'].as_atom()
            key = (srca, sp['label'].as_atom(), sp['dest'].as_atom())
            own = zand(EDGE_STORED(*key), EDGE_AUTHOR(*key) == sp['author'].as_atom())
            need_all = zand(EDGE_STORED(*key), EDGE_AUTHOR(*key) != sp['author'].as_atom())
            right = z3.If(need_all, granted_in(rooms_ev, sp['room'], sp['author'], sp['entity'], sp['ddate'], 'all'),
                          granted_in(rooms_ev, sp['room'], sp['author'], sp['entity'], sp['ddate'], 'self'))
            m = ctx.check_sat(zand(is_fwd, znot(right)))
            if m is not None:
                info['culprit'], info['problem'] = sp, 'no-right'
                report.violation(ctx, m, 'edge-deletion-accepted-without-right', info)
                return
            foreign = zand(SRC_EXISTS(srca), SRC_ENTITY(srca) == sp['short'].as_atom(), zor(znot(SRC_HAS_ROOM(srca)), SRC_ROOM(srca) != sp['room'].as_atom()))
            m = ctx.check_sat(zand(is_fwd, foreign))
            if m is not None:
                info['culprit'], info['problem'] = sp, 'source-row-in-another-room'
                report.violation(ctx, m, 'edge-deletion-accepted-without-right', info)
                return
            if len(specs) == 1:
                m = ctx.check_sat(zand(znot(is_fwd), right, znot(foreign)))
                if m is not None:
                    info['culprit'], info['problem'] = sp, 'refused-with-right'
                    report.violation(ctx, m, 'edge-deletion-refused-although-granted', info)
                    return

    ctx.call_hooks.update(hooks)
    ctx.stubs.update(stubs)
    ctx.models['Sender::send'] = reply_send
    try:
        ctx.explore(path)
    finally:
        for k in hooks:
            ctx.call_hooks.pop(k, None)
        for k in stubs:
            ctx.stubs.pop(k, None)
        if saved_send is None:
            ctx.models.pop('Sender::send', None)
        else:
            ctx.models['Sender::send'] = saved_send


def scenario_edge_deletion_records(ctx, m, kind, info):
    sc = dict(kind='received_edge_deletion_foreign_source', property='C02')
    if kind == 'panic':
        sc['expect'] = dict(result='panic')
        return sc
    if kind == 'sample':
        sc['expect'] = {}
        return sc
    sc['problem'] = info['problem']
    if info['problem'] == 'source-row-in-another-room':
        sc['author_has_right'], sc['source_in_room'] = True, False
        sc['expect'] = dict(deleted=True)
        sc['what'] = ('a received deletion record of a reference is validated against the room it is stamped with only: whether the reference\'s SOURCE ROW is stored in that room '
                      'is never looked up, so a member holding the all-rows right in room A deletes references of rows of a room it cannot write')
    else:
        sc['kind'] = 'received_edge_deletion_other'
        sc['expect'] = {}
        sc['what'] = 'DeleteEdges: a received deletion record is %s' % ('applied although its author lacks the right at its date' if info['problem'] == 'no-right' else 'refused although the author has the right')
    sc['signature'] = 'edge-deletion:%s' % info['problem']
    return sc


def scenario_edges(ctx, m, kind, info):
    c = Concretizer(m)
    sc = dict(kind='received_edges', property='C02', rooms=[c.room(ev) for ev in info['rooms']], room=c.atom(info['room']),
              edges=[dict(author=c.atom(sp['author']), entity=c.atom(sp['entity']), cdate=c.int(sp['cdate'])) for sp in info['specs']])
    if kind == 'panic':
        sc['expect'] = dict(result='panic')
        return sc
    sc['expect'] = dict(forwarded=info.get('forwarded', 0))
    if kind == 'sample':
        return sc
    cu = info['culprit']
    sc['culprit'] = info['specs'].index(cu)
    sc['problem'] = info['problem']
    if info['problem'] == 'source-row-in-another-room':
        sc['kind'] = 'received_edge_foreign_source'
        sc['author_has_right'], sc['source_in_room'] = True, False
        sc['expect'] = dict(stored=True)
        sc['what'] = ('a received reference is validated against the room being synchronised only (author, entity, date): whether its SOURCE ROW belongs to that room is never '
                      'looked up, so a member who may write the entity in the synchronised room attaches references to rows of a room it cannot write')
    else:
        sc['what'] = 'AddEdges: a received reference is %s' % ('stored although its author lacks the right at its date' if info['problem'] == 'no-right' else 'refused although the author has the right')
    sc['signature'] = 'edge:%s' % info['problem']
    return sc


def explore(ctx, shape, tier, report):
    return {'node': explore_node, 'deletions': explore_deletions, 'edges': explore_edges, 'edge_deletion_records': explore_edge_deletion_records}[shape['part']](ctx, shape, tier, report)


def scenario(ctx, m, kind, info):
    return {'node': scenario_node, 'deletions': scenario_deletions, 'edges': scenario_edges, 'edge_deletion_records': scenario_edge_deletion_records}[info['part']](ctx, m, kind, info)
