"""C14 — no input crashes an instance (panic-freedom of the pure decoders and validators).
Two engines: Kani (bit-precise, byte-level decoders of security.rs) and mirsym (structural code:
daily-log marking with peer-supplied dates, parameter validation, row verification prefixes)."""
import itertools
import sys
import threading
import time
import z3
from mirsym.interp import *
from mirsym.values import *
from mirsym.models import deref
from .lib import *
from . import c09

PANICS_ARE_VIOLATIONS = True
REQUIRED_WITNESSES = ['no-panic']
BOUNDS = {
    'quick': 'Kani: import_verifying_key on every byte string of length 0..40, Ed2519VerifyingKey::verify on every signature of length 0..70 and message of length 0..8, '
             'uid_from on every byte vector of length 0..40 (unwinding assertions on); mirsym: daily-log marking of one synchronised row / <= 2 synchronised tombstones with '
             'unconstrained 64-bit dates, Variables::validate_params for every VariableType x ParamValue x nullable with one variable, verify() of node / reference / tombstones '
             'with symbolic fields',
    'thorough': 'same harnesses; marking with <= 2 rows per batch',
}
ASSUMPTIONS = [
    'Kani stubs: ed25519_dalek::VerifyingKey::from_bytes and Verifier::verify return an arbitrary Ok/Err; alloc::fmt::format returns an empty string (error messages are not the subject)',
    'outside this kernel: the pest parsers and every unwrap behind them, SQL validity of generated statements, wire framing, thread liveness, '
    'and the JSON-null unwrap in get_mutate_query (needs a rusqlite::Connection)',
]

KANI_HARNESSES = [
    dict(name='c14_import_verifying_key_no_panic', fn='import_verifying_key', what='import_verifying_key(bytes)'),
    dict(name='c14_verify_signature_no_panic', fn='verify_signature', what='Ed2519VerifyingKey::verify(msg, signature)'),
    dict(name='c14_uid_from_no_panic', fn='uid_from', what='uid_from(bytes)'),
]

VAR_TYPES = ['Boolean', 'Float', 'Base64', 'Integer', 'String', 'Binary', 'Json', 'Invalid']
PARAM_VALUES = ['Boolean', 'Integer', 'Float', 'String', 'Binary', 'Null']


def shapes(tier):
    out = []
    for old in (0, 1, 2):
        out.append(dict(part='sync_node', old=old, has_node=1, engine='c09'))
    for kind in ('node', 'edge'):
        for n in (1, 2):
            out.append(dict(part='sync_tombstones', kind=kind, n=n, engine='c09'))
    for fn in ('date', 'date_next_day'):
        out.append(dict(part='date_fn', fn=fn))
    for vt in VAR_TYPES:
        for pv in PARAM_VALUES + ['missing']:
            out.append(dict(part='params', vt=vt, pv=pv))
    for kind in ('node', 'edge', 'node_tombstone', 'edge_tombstone'):
        for has_json in ((0, 1) if kind == 'node' else (0,)):
            out.append(dict(part='verify', kind=kind, has_json=has_json))
    return out


class C09Report:
    """adapter: in C14 the C09 driver is run with unconstrained dates and only its panics matter"""

    def __init__(self, report):
        self.r = report

    def path(self, accepted):
        self.r.path(accepted)

    def witness(self, name):
        self.r.witness('no-panic')

    def want_sample(self, accepted):
        return False

    def sample(self, sc):
        pass

    def violation(self, ctx, m, kind, info):
        pass    # marking coverage is C09's property

    def panic(self, ctx, w, p, info):
        self.r.panic(ctx, w, p, info)


def explore(ctx, shape, tier, report):
    if shape.get('engine') == 'c09':
        s2 = dict(shape)
        s2.pop('engine')
        return c09.explore(ctx, s2, tier, C09Report(report), dates_in_range=False)
    return {'params': explore_params, 'verify': explore_verify, 'date_fn': explore_date_fn}[shape['part']](ctx, shape, tier, report)


def explore_date_fn(ctx, shape, tier, report):
    """date() / date_next_day() receive dates taken from rows and requests of peers: total on every i64"""
    fn = ctx.func(shape['fn'])

    def path(ctx):
        w = World(ctx)
        x = w.i64('date')
        info = dict(part='date_fn', shape=shape, x=x)
        try:
            r = ctx.exec_fn(fn, [x])
        except Panic as p:
            report.panic(ctx, w, p, info)
            return
        report.path(True)
        report.witness('no-panic')

    ctx.enable_merge = False
    try:
        ctx.explore(path)
    finally:
        ctx.enable_merge = True


def param_value(w, pv, tag):
    variants = w.src.enum_variants('ParamValue')
    names = [v[0] for v in variants]
    idx = names.index(pv)
    if pv == 'Boolean':
        return Enum('ParamValue', idx, pv, [Cell(w.boolean(tag + '_b'))])
    if pv == 'Integer':
        return Enum('ParamValue', idx, pv, [Cell(w.i64(tag + '_i'))])
    if pv == 'Float':
        return Enum('ParamValue', idx, pv, [Cell(Opaque('float'))])
    if pv in ('String', 'Binary'):
        return Enum('ParamValue', idx, pv, [Cell(w.atom(tag + '_s', None, 'str'))])
    return Enum('ParamValue', idx, pv, [])


def explore_params(ctx, shape, tier, report):
    vp = ctx.method('Variables', 'validate_params')

    def path(ctx):
        w = World(ctx)
        vts = w.src.enum_variants('VariableType')
        names = [v[0] for v in vts]
        nullable = w.boolean('nullable')
        vt = shape['vt']
        vtype = Enum('VariableType', names.index(vt), vt, [] if vt == 'Invalid' else [Cell(nullable)])
        var = w.struct('Variable', var_type=vtype)
        variables = w.struct('Variables', vars=MapV([[S(lit='v'), Cell(var)]]))
        pm = MapV()
        if shape['pv'] != 'missing':
            pm.entries.append([S(lit='v'), Cell(param_value(w, shape['pv'], 'p'))])
        params = w.struct('Parameters', params=pm)
        info = dict(part='params', shape=shape, nullable=nullable)
        try:
            res = ctx.exec_fn(vp, [Ref(Cell(variables)), Ref(Cell(params), True)])
        except Panic as p:
            report.panic(ctx, w, p, info)
            return
        okk = res.variant == 0
        report.path(okk)
        report.witness('no-panic')
        if okk:
            # post-condition the executors rely on: an accepted parameter is present and has a shape its type allows
            ent = [c for k, c in pm.entries if k.lit == b'v']
            if len(ent) != 1:
                report.violation(ctx, ctx.check_sat(True), 'accepted-parameter-missing', info)
                return
            got = ent[0].v.vname
            allowed = {'Boolean': ['Boolean'], 'Float': ['Float', 'Integer'], 'Base64': ['String'], 'Integer': ['Integer'], 'String': ['String'],
                       'Binary': ['Binary'], 'Json': ['String'], 'Invalid': PARAM_VALUES}[vt]
            if got == 'Null':
                m = ctx.check_sat(znot(zb(nullable))) if vt != 'Invalid' else None
                if m is not None:
                    report.violation(ctx, m, 'null-accepted-for-non-nullable', info)
            elif got not in allowed:
                report.violation(ctx, ctx.check_sat(True), 'wrong-type-accepted', info)

    ctx.explore(path)


def explore_verify(ctx, shape, tier, report):
    kind = shape['kind']

    def stub_import(ctx, args, ci, dt):
        if ctx.branch(ctx.fresh_bool('key_imports')):
            return ok(Opaque('verifying_key'))
        return err(Opaque('security::Error'))

    def stub_verify(ctx, args, ci, dt):
        if ctx.branch(ctx.fresh_bool('signature_valid')):
            return ok(UNIT)
        return err(Opaque('security::Error'))

    ctx.stubs['fn:import_verifying_key'] = stub_import
    ctx.stubs['fn:security::import_verifying_key'] = stub_import
    ctx.stubs['<dyn VerifyingKey as VerifyingKey>::verify'] = stub_verify
    KEY = S(lit=b'K1'.ljust(33, b'k'))

    def path(ctx):
        w = World(ctx)
        info = dict(part='verify', shape=shape)
        if kind == 'node':
            v = w.node(id=w.atom('id', None, 'uid', n=16), room_id=w.atom('room', None, 'uid', n=16), cdate=w.i64('cdate'), mdate=w.i64('mdate'),
                       entity=w.atom('entity', None, 'str'), author=w.atom('author', None, 'bytes'), json=w.atom('json', None, 'str') if shape['has_json'] else None,
                       signature=w.atom('sig', None, 'bytes'))
            fn = ctx.method('Node', 'verify')
        elif kind == 'edge':
            v = w.edge(src=w.atom('src', None, 'uid', n=16), src_entity=w.atom('se', None, 'str'), label=w.atom('label', None, 'str'),
                       dest=w.atom('dest', None, 'uid', n=16), cdate=w.i64('cdate'), author=w.atom('author', None, 'bytes'), signature=w.atom('sig', None, 'bytes'))
            fn = ctx.method('Edge', 'verify')
        elif kind == 'node_tombstone':
            v = w.struct('NodeDeletionEntry', room_id=w.atom('room', None, 'uid', n=16), id=w.atom('id', None, 'uid', n=16), entity=w.atom('entity', None, 'str'),
                         mdate=w.i64('mdate'), deletion_date=w.i64('ddate'), verifying_key=w.atom('author', None, 'bytes'), signature=w.atom('sig', None, 'bytes'),
                         entity_name=none())
            fn = ctx.method('NodeDeletionEntry', 'verify')
        else:
            v = w.struct('EdgeDeletionEntry', room_id=w.atom('room', None, 'uid', n=16), src=w.atom('src', None, 'uid', n=16), src_entity=w.atom('se', None, 'str'),
                         dest=w.atom('dest', None, 'uid', n=16), label=w.atom('label', None, 'str'), cdate=w.i64('cdate'), deletion_date=w.i64('ddate'),
                         verifying_key=w.atom('author', None, 'bytes'), signature=w.atom('sig', None, 'bytes'), entity_name=none())
            fn = ctx.method('EdgeDeletionEntry', 'verify')
        try:
            res = ctx.exec_fn(fn, [Ref(Cell(v))])
        except Panic as p:
            report.panic(ctx, w, p, info)
            return
        report.path(res.variant == 0)
        report.witness('no-panic')

    try:
        ctx.explore(path)
    finally:
        for k in ('fn:import_verifying_key', 'fn:security::import_verifying_key', '<dyn VerifyingKey as VerifyingKey>::verify'):
            ctx.stubs.pop(k, None)


def scenario(ctx, m, kind, info):
    if info.get('part') in ('sync_node', 'sync_tombstones'):
        sc = c09.scenario(ctx, m, kind, info)
        sc['property'] = 'C14'
        return sc
    if info.get('part') == 'date_fn':
        c = Concretizer(m)
        return dict(kind='date_fn', property='C14', fn=info['shape']['fn'], date=c.int(info['x']), expect=dict(result='panic'))
    sc = dict(kind='not-replayable', property='C14', part=info.get('part'), shape=info.get('shape'))
    if kind == 'panic':
        sc['expect'] = dict(result='panic')
    else:
        sc['expect'] = dict(result='none')
        sc['what'] = '%s: %s' % (kind, info.get('shape'))
        sc['signature'] = '%s:%s' % (kind, info['shape'].get('vt'))
    return sc


def kani_scenarios(h, res):
    """turn the failed checks of a harness into replayable scenarios (values from concrete playback)"""
    out = []
    for f in res['failed']:
        pb = [p for p in res['playback'] if p['kind'] == 'assertion' and p['description'] == f['description']]
        sc = dict(kind='bytes_decoder', property='C14', fn=h['fn'], kani_check=f, expect=dict(result='panic'),
                  what='%s panics: %s at %s' % (h['what'], f['description'], f['location']),
                  signature='panic:%s:%s' % (h['fn'], f['location'].split(' in function ')[-1] if 'placeholder' in f['description'] else f['description'].split(':')[0]))
        if pb:
            vals = pb[0]['values']
            ln = int.from_bytes(bytes(vals[0]), 'little') if vals else 0
            if h['fn'] == 'verify_signature':
                # order of kani::any() calls in the harness: sig_arr[70], slen, msg[8], mlen
                flat = [v[0] for v in vals[:70]]
                slen = int.from_bytes(bytes(vals[70]), 'little') if len(vals) > 70 else 0
                sc['bytes'] = flat[:slen]
                sc['msg'] = [v[0] for v in vals[71:79]][:int.from_bytes(bytes(vals[79]), 'little') if len(vals) > 79 else 0]
            else:
                sc['bytes'] = [v[0] for v in vals[1:1 + ln]]
        else:
            sc['bytes'] = []
        out.append(sc)
    return out


def main(tier, seed, args):
    from . import run, kani
    this = sys.modules[__name__]
    t0 = time.time()
    kres = {}

    def run_kani():
        for h in KANI_HARNESSES:
            kres[h['name']] = kani.run_harness(h['name'], 600 if tier == 'quick' else 1800)

    th = threading.Thread(target=run_kani)
    th.start()
    results, tree_hash = run.run_mirsym('C14', this, tier, seed, args)
    th.join()
    extra = dict(violations=[], inconclusive=[], coverage={}, validated=0)
    summary = []
    for h in KANI_HARNESSES:
        r = kres[h['name']]
        summary.append({k: r[k] for k in ('harness', 'verdict', 'checks', 'covers_satisfied', 'covers_total', 'undetermined', 'verification_time', 'wall_s', 'stubs')})
        summary[-1]['failed'] = r['failed']
        if r['verdict'] == 'failed' and r['failed']:
            extra['violations'] += kani_scenarios(h, r)
        elif r['verdict'] != 'proved':
            extra['inconclusive'].append('Kani harness %s: %s %s' % (h['name'], r['verdict'], r.get('log_tail', '')[-400:]))
    extra['coverage'] = dict(kani_harnesses=summary, kani_version='0.68.0 (CBMC 6.11.0, cadical)')
    return run.finish('C14', tier, seed, this, results, t0, tree_hash, no_replay=args.no_replay, extra=extra)
