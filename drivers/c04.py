"""C04 — text is never executed (SQL-text half).
The clause builders of query.rs are executed from MIR on hand-built EntityParams (the structs the parser produces)
whose VALUE leaves — string / binary literals, default strings — are symbolic byte sequences; identifiers are concrete
grammar-legal names.  Two runs with independent value symbols must produce the same SQL text (a relational query):
a value may only travel as a bound parameter."""
import itertools
import z3
from mirsym.interp import *
from mirsym.values import *
from mirsym.values import SEQ8
from mirsym.models import deref
from .lib import *

REQUIRED_WITNESSES = ['sql-independent-of-values', 'values-bound-as-parameters']
BOUNDS = {
    'quick': 'get_where_filters (one filter: literal String / Binary / Integer / Boolean / Null value or a variable; field system / scalar / array / entity; default none / '
             'Integer / String; selected or not; plus one JSON-selector filter), get_having_filters, get_search_filter, get_paging (one key) and get_limit; value strings of <= 4 '
             'symbolic ASCII bytes (any byte 0x00-0x7f, including quotes, backslash, NUL)',
    'thorough': 'same with two filters per clause and value strings of <= 8 bytes',
}
ASSUMPTIONS = [
    'identifiers (field names, aliases, variable names, JSON selectors, operators) are the concrete grammar-restricted names the pest parsers let through; literal un-escaping in the '
    'parsers and the round-trip half of the property (SQLite JSON functions) are outside this kernel',
    'value strings are restricted to 7-bit bytes so that counterexamples are valid Rust Strings',
]

VALUE_KINDS = ['variable', 'String', 'Binary', 'Integer', 'Boolean', 'Null']
FIELD_KINDS = ['system', 'scalar', 'scalar-default-int', 'scalar-default-string', 'array', 'entity']


def shapes(tier):
    out = []
    for vk in VALUE_KINDS:
        for fk in FIELD_KINDS:
            for sel in (0, 1):
                out.append(dict(part='where', value=vk, field=fk, selected=sel))
    for vk in ('variable', 'String', 'Integer'):
        out.append(dict(part='json_filter', value=vk))
        out.append(dict(part='having', value=vk))
        out.append(dict(part='paging', value=vk))
        for vk2 in ('String', 'Integer'):
            out.append(dict(part='paging', value=vk, value2=vk2))
    for vk in ('String', 'Binary'):
        out.append(dict(part='paging', value=vk, before=1))
    for vk in ('variable', 'String'):
        out.append(dict(part='search', value=vk))
    for vk in ('variable', 'Integer'):
        out.append(dict(part='limit', value=vk))
    # the select list: default values of the data model, per kind of selected field
    for qft in ('Scalar', 'Binary', 'Json'):
        for fk in (('scalar-default-string', 'scalar-default-int', 'scalar') if qft != 'Binary' else ('scalar-default-string', 'scalar')):
            out.append(dict(part='fields', qft=qft, field=fk))
    return out


def sym_text(ctx, name, maxlen):
    v = ctx.fresh(name, SEQ8)
    ctx.add(z3.Length(v) <= maxlen)
    for i in range(maxlen):
        ctx.add(z3.Implies(i < z3.Length(v), z3.ULE(v[i], 0x7f)))
    return S(seq=v, text=True)


def pv(w, kind, payload=None):
    names = [v[0] for v in w.src.enum_variants('ParamValue')]
    return Enum('ParamValue', names.index(kind), kind, [] if payload is None else [Cell(payload)])


def field_value(w, ctx, kind, tag, maxlen):
    """FieldValue::Variable(name) or FieldValue::Value(ParamValue)"""
    names = [v[0] for v in w.src.enum_variants('FieldValue')]
    syms = []
    if kind == 'variable':
        return Enum('FieldValue', names.index('Variable'), 'Variable', [Cell(S(lit='var_' + tag))]), syms
    if kind in ('String', 'Binary'):
        sv = sym_text(ctx, tag + '_value', maxlen)
        syms.append(sv)
        inner = pv(w, kind, sv)
    elif kind == 'Integer':
        inner = pv(w, 'Integer', Int(64, True, 42))
    elif kind == 'Boolean':
        inner = pv(w, 'Boolean', True)
    else:
        inner = pv(w, 'Null')
    return Enum('FieldValue', names.index('Value'), 'Value', [Cell(inner)]), syms


def mk_field(w, ctx, kind, tag, maxlen):
    ft_names = [v[0] for v in w.src.enum_variants('FieldType')]

    def ft(n, payload=None):
        return Enum('FieldType', ft_names.index(n), n, [] if payload is None else [Cell(payload)])
    syms = []
    default = none()
    ftype = ft('String')
    system = False
    if kind == 'system':
        system = True
    elif kind == 'scalar-default-int':
        ftype = ft('Integer')
        default = some(pv(w, 'Integer', Int(64, True, 7)))
    elif kind == 'scalar-default-string':
        d = sym_text(ctx, tag + '_default', maxlen)
        syms.append(d)
        default = some(pv(w, 'String', d))
    elif kind == 'array':
        ftype = ft('Array', S(lit='ns.Other'))
    elif kind == 'entity':
        ftype = ft('Entity', S(lit='ns.Other'))
    f = w.struct('Field', name=S(lit='name'), short_name=S(lit='32'), field_type=ftype, default_value=default, nullable=False, deprecated=False, mutable=True,
                 is_system=system)
    return f, syms


def entity_params(w, **kw):
    names = [v[0] for v in w.src.enum_variants('FieldValue')]
    base = dict(filters=VecV(), json_filters=VecV(), aggregate_filters=VecV(), fulltext_search=none(), before=VecV(), after=VecV(), order_by=VecV(),
                first=Enum('FieldValue', names.index('Value'), 'Value', [Cell(pv(w, 'Integer', Int(64, True, 0)))]), skip=none(), nullable=MapV(is_set=True))
    base.update(kw)
    return w.struct('EntityParams', **base)


def single_query(w):
    return w.struct('SingleQuery', name=S(lit='q'), var_order=VecV(), sql_query=S(lit='', text=True))


def run_once(ctx, w, shape, tag, maxlen):
    """build the structures with fresh value symbols, run the clause builder, return (sql text S, bound params, value symbols)"""
    part = shape['part']
    syms = []
    sq = Cell(single_query(w))
    t = Int(64, False, 1)
    if part == 'where':
        fv, s1 = field_value(w, ctx, shape['value'], tag, maxlen)
        fld, s2 = mk_field(w, ctx, shape['field'], tag, maxlen)
        syms += s1 + s2
        fp = w.struct('FilterParam', name=S(lit='name'), operation=S(lit='='), value=fv, is_aggregate=False, is_selected=bool(shape['selected']), field=fld)
        params = entity_params(w, filters=VecV([Cell(fp)]))
        sql = ctx.exec_fn(ctx.func('get_where_filters'), [Ref(Cell(params)), Ref(sq, True), t])
    elif part == 'json_filter':
        fv, s1 = field_value(w, ctx, shape['value'], tag, maxlen)
        fld, s2 = mk_field(w, ctx, 'scalar', tag, maxlen)
        syms += s1
        jf = w.struct('JsonFilter', selector=S(lit="'$.a.b'"), operation=S(lit='='), value=fv, field=fld)
        params = entity_params(w, json_filters=VecV([Cell(jf)]))
        sql = ctx.exec_fn(ctx.func('get_where_filters'), [Ref(Cell(params)), Ref(sq, True), t])
    elif part == 'having':
        fv, s1 = field_value(w, ctx, shape['value'], tag, maxlen)
        fld, s2 = mk_field(w, ctx, 'scalar', tag, maxlen)
        syms += s1
        fp = w.struct('FilterParam', name=S(lit='total'), operation=S(lit='>'), value=fv, is_aggregate=True, is_selected=True, field=fld)
        params = entity_params(w, aggregate_filters=VecV([Cell(fp)]))
        sql = ctx.exec_fn(ctx.func('get_having_filters'), [Ref(Cell(params)), Ref(sq, True), t])
    elif part == 'search':
        fv, s1 = field_value(w, ctx, shape['value'], tag, maxlen)
        syms += s1
        params = entity_params(w, fulltext_search=some(fv))
        sql = ctx.exec_fn(ctx.func('get_search_filter'), [Ref(Cell(params)), Ref(sq, True), t])
    elif part == 'paging':
        fv, s1 = field_value(w, ctx, shape['value'], tag, maxlen)
        fld, s2 = mk_field(w, ctx, 'scalar', tag, maxlen)
        syms += s1
        dn = [v[0] for v in w.src.enum_variants('Direction')]
        ob = w.struct('OrderBy', name=S(lit='name'), direction=Enum('Direction', dn.index('Asc'), 'Asc', []), is_selected=True, field=fld)
        keys_, obs = [Cell(fv)], [Cell(ob)]
        if shape.get('value2'):
            fv2, s3 = field_value(w, ctx, shape['value2'], tag + '2', maxlen)
            fld2, _ = mk_field(w, ctx, 'scalar', tag + '2', maxlen)
            syms += s3
            keys_.append(Cell(fv2))
            obs.append(Cell(w.struct('OrderBy', name=S(lit='age'), direction=Enum('Direction', dn.index('Desc'), 'Desc', []), is_selected=False, field=fld2)))
        if shape.get('before'):
            params = entity_params(w, before=VecV(keys_), order_by=VecV(obs))
        else:
            params = entity_params(w, after=VecV(keys_), order_by=VecV(obs))
        sql = ctx.exec_fn(ctx.func('get_paging'), [Ref(Cell(params)), Ref(sq, True)])
    elif part == 'fields':
        fld, s2 = mk_field(w, ctx, shape['field'], tag, maxlen)
        syms += s2
        qn = [v[0] for v in w.src.enum_variants('QueryFieldType')]
        qf = w.struct('QueryField', field=fld, alias=none(), json_selector=none(), field_type=Enum('QueryFieldType', qn.index(shape['qft']), shape['qft'], []))
        eq = w.struct('EntityQuery', name=S(lit='ns.E'), alias=none(), short_name=S(lit='1'), depth=Int(64, False, 0), complexity=Int(64, False, 0), is_aggregate=False,
                      params=entity_params(w), fields=VecV([Cell(qf)]))
        sql = ctx.exec_fn(ctx.func('get_fields'), [Ref(Cell(eq)), Ref(sq, True), S(lit='_node'), t])
    else:
        fv, s1 = field_value(w, ctx, shape['value'], tag, maxlen)
        params = entity_params(w, first=fv)
        sql = ctx.exec_fn(ctx.func('get_limit'), [Ref(Cell(params)), Ref(sq, True)])
    bound = [deref(w.field(c.v, 'Param', 'value').v) for c in deref(w.field(sq.v, 'SingleQuery', 'var_order').v).elems]
    return deref(sql), bound, syms


def explore(ctx, shape, tier, report):
    maxlen = 4 if tier == 'quick' else 8

    def path(ctx):
        w = World(ctx)
        info = dict(shape=shape)
        try:
            sql1, bound1, syms1 = run_once(ctx, w, shape, 'a', maxlen)
            sql2, bound2, syms2 = run_once(ctx, w, shape, 'b', maxlen)
        except Panic as p:
            report.panic(ctx, w, p, info)
            return
        report.path(True)
        info.update(sql1=sql1, sql2=sql2, syms1=syms1, syms2=syms2)
        if sql1.lit is not None and sql2.lit is not None:
            if sql1.lit != sql2.lit or ctx.check_sat(sql1.as_seq() != sql2.as_seq()) is not None:
                raise Inconclusive('two runs on the same structure gave different concrete SQL')
            report.witness('sql-independent-of-values')
        else:
            q = sql1.as_seq() != sql2.as_seq()
            m = ctx.check_sat(q)
            if m is not None:
                # prefer a witness that changes the STRUCTURE of the statement: a quote inside the value
                quote = zor(*[z3.Contains(s.as_seq(), z3.Unit(z3.BitVecVal(0x27, 8))) for s in syms1]) if syms1 else False
                m2 = ctx.check_sat(zand(q, quote)) if syms1 else None
                report.violation(ctx, m2 or m, 'value-spliced-into-sql', info)
                return
            report.witness('sql-independent-of-values')
        # every symbolic literal value reached the bound parameters unchanged
        ok_bound = True
        for s in syms1:
            if not any(b is s or (b.seq is not None and s.seq is not None and b.seq.eq(s.seq)) for b in bound1):
                ok_bound = False
        if syms1 and not ok_bound:
            report.violation(ctx, ctx.check_sat(True), 'literal-value-not-bound', info)
            return
        for s in syms1:
            # the bound parameter is the value, byte for byte
            if ctx.check_sat(zand(*[b.as_seq() != s.as_seq() for b in bound1 if b.seq is not None or b.lit is not None])) is not None and \
                    all(ctx.check_sat(b.as_seq() == s.as_seq()) is None for b in bound1):
                report.violation(ctx, ctx.check_sat(True), 'literal-value-not-bound', info)
                return
        report.witness('values-bound-as-parameters')

    ctx.explore(path)


def conc_text(m, s):
    if s.lit is not None:
        return s.lit.decode('latin1')
    n = m.eval(z3.Length(s.as_seq()), model_completion=True).as_long()
    return ''.join(chr(m.eval(s.as_seq()[i], model_completion=True).as_long()) for i in range(n))


def scenario(ctx, m, kind, info):
    sh = info['shape']
    sc = dict(kind='sql_clause', property='C04', shape=sh)
    if kind == 'panic':
        sc['expect'] = dict(result='panic')
        return sc
    sc['values_a'] = [conc_text(m, s) for s in info.get('syms1', [])]
    sc['values_b'] = [conc_text(m, s) for s in info.get('syms2', [])]
    sc['expect'] = dict(sql_differs=True)
    sc['what'] = '%s: the SQL text depends on a %s (model: %r vs %r)' % (sh['part'], 'default string of the field' if sh.get('field') == 'scalar-default-string' else 'literal value',
                                                                      sc['values_a'], sc['values_b'])
    sc['signature'] = '%s:%s:%s' % (kind, sh['part'], sh.get('field', ''))
    return sc
