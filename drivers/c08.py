"""C08 — a peer is served data only for rooms it is a member of (membership kernel).
(a) membership decision: RoomAuthorisations::rooms_for_peer / user_for_room against the oracle;
(b) guard before access: first poll segment of InboundQueryService::process_inbound for every request kind:
    every call into GraphDatabaseService is an observable event that ends the segment;
(c) admission on room changes: first poll segments of LocalPeerService::process_local_event."""
import itertools
import z3
from mirsym.interp import *
from mirsym.values import *
from mirsym.models import deref, SegmentEnd
from .lib import *
from .c01 import KEYS, ROOMS, ENTS, SPECS, now_of, robust_now, all_dates

REQUIRED_WITNESSES = ['served', 'refused', 'member', 'not-member', 'admitted', 'not-admitted']
BOUNDS = {
    'quick': '(a) room configurations of C01 quick, symbolic key and date, every map order; (b) each of the 13 request kinds with a symbolic room in {R1,R2,R3}, every '
             'subset of {R1,R2,R3} as allowed rooms, bound key empty / own / other (symbolic), conn_ready symbolic; (c) one changed room (C01 quick configuration), symbolic remote key',
    'thorough': 'same with the three room configurations of C01 thorough',
}
ASSUMPTIONS = [
    'only the first poll segment of the async handlers is executed: from the match on the request to the first call into GraphDatabaseService / the first reply; '
    'what happens behind those calls (SQL row filters by room) and allowed_room maintenance across sequences of events are outside (single admission / revocation events are covered)',
    'tokio::sync::Mutex::lock is uncontended (Ready)',
]

QUERIES = ['ProveIdentity', 'HardwareFingerprint', 'RoomList', 'RoomDefinition', 'RoomNode', 'RoomLog', 'RoomLogAt', 'EdgeDeletionLog', 'NodeDeletionLog',
           'RoomDailyNodes', 'Nodes', 'Edges', 'PeersForRoom']
ROOM_SCOPED = QUERIES[3:]


def shapes(tier):
    out = []
    for i in range(len(SPECS[tier])):
        out.append(dict(part='membership', spec=i))
        out.append(dict(part='admission', spec=i))
    for q in QUERIES:
        masks = range(8) if q in ROOM_SCOPED else (0, 7)
        for mask in masks:
            out.append(dict(part='inbound', query=q, mask=mask))
    return out


def explore(ctx, shape, tier, report):
    return {'membership': explore_membership, 'inbound': explore_inbound, 'admission': explore_admission}[shape['part']](ctx, shape, tier, report)


# ------------------------------------------------------------------------------------------------ (a)

def explore_membership(ctx, shape, tier, report):
    spec1, spec2 = SPECS[tier][shape['spec']]
    rfp = ctx.method('RoomAuthorisations', 'rooms_for_peer')
    ufr = ctx.method('RoomAuthorisations', 'user_for_room')
    ctx.map_order = 'all'

    def path(ctx):
        w = World(ctx)
        ctx.map_order = 'fixed'
        owner = KEYS[0]
        r1, ev1 = build_room(w, ROOMS[0], spec1, KEYS, ENTS, 'r1')
        r2, ev2 = build_room(w, ROOMS[1], spec2, KEYS, ENTS, 'r2')
        rooms_ev = [ev1, ev2]
        ra = w.struct('RoomAuthorisations', signing_key=w.signing_key(owner), rooms=MapV([[ROOMS[0], r1], [ROOMS[1], r2]]), max_node_size=w.u64('max'))
        key = w.atom('peer_key', KEYS, 'bytes', n=33)
        date = w.i64('date')
        ctx.map_order = 'all'
        info = dict(part='membership', rooms=rooms_ev, key=key, date=date)
        try:
            res = ctx.exec_fn(rfp, [Ref(Cell(ra)), Ref(Cell(key)), date])
        except Panic as p:
            report.panic(ctx, w, p, info)
            return
        got = [k for k, _ in res.entries]
        info['got'] = got
        report.path(bool(got))
        if report.want_sample(bool(got)):
            ms = ctx.check_sat(True)
            sc = scenario(ctx, ms, 'sample', info)
            report.sample(sc)
        for ev in rooms_ev:
            inres = any(g.lit == ev.id.lit for g in got)
            mem = is_member(ev, key, date)
            m = ctx.check_sat(znot(mem) if inres else mem)
            if m is not None:
                info['room'] = ev
                info['listed'] = inres
                report.violation(ctx, m, 'room-listed-for-non-member' if inres else 'room-not-listed-for-member', info)
                return
            report.witness('member' if inres else 'not-member')

    try:
        ctx.explore(path)
    finally:
        ctx.map_order = 'fixed'


# ------------------------------------------------------------------------------------------------ (b)

def install_async_hooks(ctx, events):
    """every GraphDatabaseService method and every reply is an observable event ending the segment"""
    cached = getattr(ctx, '_c08_hook_targets', None)
    hooks = {}
    targets = cached if cached is not None and cached[0] is ctx.mod else None
    if targets is None:
        sel = []
        for f in ctx.mod.funcs.values():
            if getattr(f, 'impl_span', None) and getattr(f, 'method', None):
                ity, itr = ctx.src.impl_info(f.impl_span)
                if ity in ('GraphDatabaseService', 'RemotePeerHandle', 'InboundQueryService', 'LocalPeerService'):
                    sel.append(f)
        ctx._c08_hook_targets = (ctx.mod, sel)
        targets = ctx._c08_hook_targets
    for f in targets[1]:
        if getattr(f, 'impl_span', None):
            ity, itr = ctx.src.impl_info(f.impl_span)
            if ity == 'GraphDatabaseService' and itr is None and f.ret.strip().startswith('{async'):
                def mk(name):
                    def hook(ctx_, args):
                        events.append(('db', name, args[1:]))
                        raise SegmentEnd('db:' + name)
                    return hook
                hooks[f.name] = mk(f.method)
            if ity == 'RemotePeerHandle' and f.method == 'send':
                def send_hook(ctx_, args):
                    # the reply is recorded and completes at once: what the handler does AFTER answering is still observed
                    events.append(('send', args[1], args[2], args[3], args[4]))
                    return Opaque('ready-future', ok(UNIT))
                hooks[f.name] = send_hook
            if ity == 'InboundQueryService' and f.method == 'add_allowed_room':
                def add_hook(ctx_, args):
                    events.append(('admit', args[1]))
                    return UNIT
                hooks[f.name] = add_hook
            if ity == 'InboundQueryService' and f.method != 'add_allowed_room' and any(t in f.method for t in ('remove', 'revoke', 'disallow', 'forbid')):
                def rm_hook(ctx_, args):
                    events.append(('revoke', args[1]))
                    return UNIT
                hooks[f.name] = rm_hook
            if ity == 'LocalPeerService' and f.method == 'send_event':
                def se_hook(ctx_, args):
                    events.append(('remote-event', args[1]))
                    raise SegmentEnd('send_event')
                hooks[f.name] = se_hook
    if not any(h for h in hooks):
        raise Inconclusive('no GraphDatabaseService method found')
    ctx.call_hooks.update(hooks)
    return hooks


def explore_inbound(ctx, shape, tier, report):
    events = []
    hooks = install_async_hooks(ctx, events)
    pi = ctx.method('InboundQueryService', 'process_inbound')
    qname = shape['query']
    allowed = [ROOMS[i] for i in range(3) if shape['mask'] >> i & 1]

    def path(ctx):
        w = World(ctx)
        del events[:]
        own = KEYS[0]
        room = w.atom('req_room', ROOMS, 'uid', n=16)
        variants = w.src.enum_variants('Query')
        names = [v[0] for v in variants]
        idx = names.index(qname)
        payload = {
            'ProveIdentity': [w.atom('challenge', None, 'bytes')], 'HardwareFingerprint': [], 'RoomList': [],
            'RoomDefinition': [room], 'RoomNode': [room], 'RoomLog': [room], 'RoomLogAt': [room, w.i64('date')],
            'EdgeDeletionLog': [room, w.atom('entity', None, 'str'), w.i64('date')], 'NodeDeletionLog': [room, w.atom('entity', None, 'str'), w.i64('date')],
            'RoomDailyNodes': [room, w.atom('entity', None, 'str'), w.i64('date')], 'Nodes': [room, VecV([Cell(w.atom('nid', None, 'uid', n=16))])],
            'Edges': [room, VecV([Cell(tup(w.atom('eid', None, 'uid', n=16), w.i64('edate')))])], 'PeersForRoom': [room],
        }[qname]
        msg = w.struct('QueryProtocol', id=w.u64('msg_id'), query=Enum('Query', idx, qname, [Cell(x) for x in payload]))
        peer = w.struct('RemotePeerHandle', allowed_room=MapV([[r, Cell(UNIT)] for r in allowed], is_set=True), db=Opaque('db'), verifying_key=own, reply=Opaque('reply'))
        bound = w.atom('bound_key', KEYS + [S(lit=b'')], 'bytes')
        ready = w.boolean('conn_ready')
        vk = Ref(Cell(Ref(Cell(Opaque('mutex', Cell(bound))))))          # &Arc<Mutex<Vec<u8>>>
        cr = Ref(Cell(Ref(Cell(Opaque('atomic', ready)))))                  # &Arc<AtomicBool>
        info = dict(part='inbound', shape=shape, room=room, bound=bound, ready=ready, events=events)
        try:
            fp = w.struct('HardwareFingerprint', id=w.atom('hw_id', None, 'uid', n=16), name=w.atom('hw_name', None, 'str'))
            co = ctx.exec_fn(pi, [msg, Ref(Cell(peer), True), vk, cr, Ref(Cell(fp))])
            try:
                ctx.poll(co)
            except SegmentEnd:
                pass
        except Panic as p:
            report.panic(ctx, w, p, info)
            return
        db = [e for e in events if e[0] == 'db']
        sends = [e for e in events if e[0] == 'send']
        report.path(bool(db))
        in_allowed = zor(*[seq(room, r) for r in allowed]) if qname in ROOM_SCOPED else z3.BoolVal(True)
        nonempty = znot(seq(bound, S(lit=b'')))
        if report.want_sample(bool(db)):
            ms = ctx.check_sat(True)
            if ms is not None:
                report.sample(scenario(ctx, ms, 'sample', info))
        conds = []
        if db:
            report.witness('served')
            name = db[0][1]
            if qname in ROOM_SCOPED:
                conds.append(('data of a room that is not allowed is read (%s)' % name, in_allowed))
                first = db[0][2][0] if db[0][2] else None
                if isinstance(deref(first), S):
                    conds.append(('the room read is not the room that was checked (%s)' % name, seq(deref(first), room)))
            if qname == 'RoomList':
                conds.append(('room list served before authentication', zand(nonempty, zb(ready))))
        else:
            report.witness('refused')
        if sends:
            success = sends[0][2]
            if qname in ROOM_SCOPED and not db:
                conds.append(('a refused request is answered with success', znot(zb(success))))
            if qname in ROOM_SCOPED and db and events.index(sends[0]) < events.index(db[0]):
                # a reply came before the data access: it can only have been the refusal
                conds.append(('data is read after the request was refused (%s)' % db[0][1], zb(success)))
            if qname == 'HardwareFingerprint':
                conds.append(('the hardware fingerprint is sent to another key', zand(nonempty, seq(bound, own))))
        for label, c in conds:
            m = ctx.check_sat(znot(c))
            if m is not None:
                info['problem'] = label
                report.violation(ctx, m, 'inbound-guard', info)
                return

    try:
        ctx.explore(path)
    finally:
        for k in hooks:
            ctx.call_hooks.pop(k, None)


# ------------------------------------------------------------------------------------------------ (c)

def explore_admission(ctx, shape, tier, report):
    spec1, spec2 = SPECS[tier][shape['spec']]
    events = []
    hooks = install_async_hooks(ctx, events)
    ple = ctx.method('LocalPeerService', 'process_local_event')

    def path(ctx):
        w = World(ctx)
        del events[:]
        r1, ev1 = build_room(w, ROOMS[0], spec1, KEYS, ENTS, 'r1')
        key = w.atom('remote_key', KEYS + [S(lit=b'')], 'bytes')
        variants = [v[0] for v in w.src.enum_variants('LocalEvent')]
        msg = Enum('LocalEvent', variants.index('RoomDefinitionChanged'), 'RoomDefinitionChanged', [Cell(Ref(r1))])     # Arc<Room>
        rk = Ref(Cell(Ref(Cell(Opaque('mutex', Cell(key))))))
        info = dict(part='admission', rooms=[ev1], key=key, events=events)
        try:
            co = ctx.exec_fn(ple, [msg, rk, Ref(Cell(Opaque('event-sender'))), Ref(Cell(MapV(is_set=True))), Ref(Cell(Opaque('inbound-query-service')))])
            try:
                ctx.poll(co)
            except SegmentEnd:
                pass
        except Panic as p:
            report.panic(ctx, w, p, info)
            return
        admitted = [e for e in events if e[0] == 'admit']
        report.path(bool(admitted))
        now = now_of(ctx)
        if now is None:
            now = w.i64('current_time')      # the handler never asked for the time
        info['now'] = now
        if report.want_sample(bool(admitted)):
            ms = ctx.check_sat(robust_now(ctx, now, all_dates([ev1])))
            if ms is not None:
                sc = scenario(ctx, ms, 'sample', info)
                sc['expect'] = dict(admitted=bool(admitted))
                report.sample(sc)
        if admitted:
            report.witness('admitted')
            mem = is_member(ev1, key, now)
            m = ctx.check_sat(zand(znot(mem), robust_now(ctx, now, all_dates([ev1])))) or ctx.check_sat(znot(mem))
            if m is not None:
                info['admitted'] = True
                report.violation(ctx, m, 'room-admitted-for-non-member', info)
        else:
            report.witness('not-admitted')
            # a former member: the room may have been admitted on this connection earlier; it must not stay readable
            revoked = [e for e in events if e[0] == 'revoke' and seq(deref(e[1]), ev1.id) is not False]
            if revoked and report.want_sample(False):
                # the revocation is also exercised on the real service task: the room was readable before the event and is not afterwards
                ms = ctx.check_sat(zand(znot(seq(key, S(lit=b''))), robust_now(ctx, now, all_dates([ev1]))))
                if ms is not None:
                    sc = scenario(ctx, ms, 'sample', info)
                    sc['kind'] = 'room_revocation'
                    sc['expect'] = dict(served_before=True, served_after=False)
                    report.sample(sc)
            if not revoked:
                mem = is_member(ev1, key, now)
                nonempty = znot(seq(key, S(lit=b'')))
                m = ctx.check_sat(zand(znot(mem), nonempty, robust_now(ctx, now, all_dates([ev1])))) or ctx.check_sat(zand(znot(mem), nonempty))
                if m is not None:
                    info['admitted'] = False
                    info['former'] = True
                    report.violation(ctx, m, 'room-stays-readable-for-former-member', info)

    try:
        ctx.explore(path)
    finally:
        for k in hooks:
            ctx.call_hooks.pop(k, None)


# ------------------------------------------------------------------------------------------------ scenarios

def scenario(ctx, m, kind, info):
    c = Concretizer(m)
    part = info['part']
    if part == 'membership':
        sc = dict(kind='rooms_for_peer', property='C08', rooms=[c.room(ev) for ev in info['rooms']], caller=c.atom(KEYS[0]), key=c.atom(info['key']), date=c.int(info['date']))
        if kind == 'sample':
            sc['expect'] = dict(rooms=sorted(g.lit.decode() for g in info['got']))
            return sc
        lst = sorted(g.lit.decode() for g in info['got'])
        sc['expect'] = dict(rooms=lst)
        sc['what'] = 'rooms_for_peer %s a room for a key that %s a member at that date' % ('lists' if info['listed'] else 'omits', 'is not' if info['listed'] else 'is')
        sc['signature'] = '%s' % kind
        return sc
    if part == 'admission':
        sc = dict(kind='local_event_admission', property='C08', rooms=[c.room(ev) for ev in info['rooms']], key=c.atom(info['key']), model_now=c.int(info['now']))
        if kind == 'sample':
            return sc
        if info.get('former'):
            sc['kind'] = 'room_revocation'
            sc['expect'] = dict(served_before=True, served_after=True)
            sc['what'] = ('a room-definition change after which the connected key is no longer an enabled member leaves the room in the set this connection may read: '
                          'the former member is still served the room (RoomNode request answered) until it disconnects')
            sc['signature'] = 'room-stays-readable-for-former-member'
            return sc
        sc['expect'] = dict(admitted=True)
        sc['what'] = 'a room-definition change admits the room for a connected key that is not an enabled member at that time (has an entry, but disabled or not yet valid)'
        sc['signature'] = 'room-admitted-for-non-member'
        return sc
    sh = info['shape']
    sc = dict(kind='inbound_query', property='C08', query=sh['query'], allowed=[ROOMS[i].lit.decode() for i in range(3) if sh['mask'] >> i & 1],
              room=c.atom(info['room']), bound_key=c.atom(info['bound']), conn_ready=c.bool(info['ready']))
    db = [e for e in info['events'] if e[0] == 'db']
    if sh['query'] in ROOM_SCOPED:
        sc['expect'] = dict(data_served=bool(db))
    elif sh['query'] == 'RoomList':
        sc['expect'] = dict(answered=bool(db))
    else:
        sc['expect'] = {}
    if kind == 'sample':
        return sc
    sc['what'] = 'process_inbound(%s): %s' % (sh['query'], info.get('problem'))
    sc['signature'] = 'inbound-guard:%s:%s' % (sh['query'], info.get('problem'))
    return sc
