"""C17 — full-text search returns exactly the rows whose current text matches (index maintenance of synchronised rows only).
A row received from a peer travels GraphDatabase::add_nodes -> AuthorisationMessage::AddNodes -> the AddNodes arm of process_message ->
WriteMessage::Nodes -> NodeToInsert::write -> Node::write.  All four are executed from MIR, the last one on a connection that records
every SQL statement with its parameters.  For an entity with indexing enabled the statements must put the row's current text into
`_node_fts` under the row's storage slot (and take the previous text out when a stored version is replaced); for an entity with
indexing disabled they must not touch the index."""
import z3
from mirsym.interp import *
from mirsym.values import *
from mirsym.models import deref, SegmentEnd, A
from .lib import *
from .c01 import KEYS, ROOMS

REQUIRED_WITNESSES = ['written', 'indexed-or-not']
BOUNDS = {
    'quick': 'one received row (symbolic id, author, dates, JSON text), new here or replacing a stored version (with a symbolic previous text), entity with indexing '
             'enabled or disabled (symbolic flag)',
    'thorough': 'same with two rows in the batch',
}
ASSUMPTIONS = [
    'extract_json(document) is an uninterpreted function of the JSON text (the same function the local write path uses); serde_json::from_str of the row text succeeds',
    'the rights check (validate_node) answers yes: it is the subject of C02; validate_json_for_entity answers yes',
    'SQL statements are recorded, not executed: that `_node_fts` then answers MATCH queries exactly for the recorded texts is SQLite FTS5 behaviour and outside; '
    'local writes, deletions and the reuse of storage slots are outside this kernel',
]
EXTRACT = z3.Function('extract_json_text', A, A)


def shapes(tier):
    out = [dict(part='sync_write', old=o, n=1) for o in (0, 1)]
    # the local write path hands NodeToInsert { index, old_fts_str, node_fts_str } prepared by the mutation to the same Node::write
    out += [dict(part='local_write', old=o, prev=pv, cur=c) for o in (0, 1) for pv in ((0, 1) if o else (0,)) for c in (0, 1)]
    if tier == 'thorough':
        out.append(dict(part='sync_write', old=0, n=2))
    return out


def explore_local(ctx, shape, report):
    """Node::write through NodeToInsert::write on the statement recorder, with what a local mutation prepares: index flag (symbolic), the
    previous text of a stored version and the current text.  Contract of the hand-maintained content-less index: with indexing on, the previous
    text is deleted under the row's slot, the current text is inserted under the row's slot (the stored slot, or the one the INSERT returned);
    with indexing off the index is not touched."""
    nwrite = ctx.method('NodeToInsert', 'write', trait='Writeable')
    sql = []

    def prepare(ctx_, args, ci, dt):
        q = deref(args[1])
        while isinstance(q, Ref):
            q = deref(q)
        if not (isinstance(q, S) and q.lit is not None):
            raise Unsupported('SQL text is not a literal: %r' % (q,))
        return ok(Opaque('statement', ' '.join(q.lit.decode().split())))

    def params_of(p):
        return [deref(c.v) for c in p.fields] if isinstance(p, Struct) else [deref(p)]

    def execute(ctx_, args, ci, dt):
        sql.append((deref(args[0]).data, params_of(args[1])))
        return ok(Int(64, False, 1))

    def insert(ctx_, args, ci, dt):
        rid = ctx_.fresh_int('new_rowid', 'i64')
        sql.append((deref(args[0]).data, params_of(args[1]), rid))
        return ok(rid)
    stubs = {'Connection::prepare_cached': prepare, 'Connection::prepare': prepare, 'CachedStatement::execute': execute, 'Statement::execute': execute,
             'CachedStatement::insert': insert, 'Statement::insert': insert}

    def path(ctx):
        w = World(ctx)
        del sql[:]
        index = w.boolean('index')
        nid = S(lit=b'N0'.ljust(16, b'n'))
        node = w.node(id=nid, room_id=ROOMS[0], cdate=w.i64('cdate'), mdate=w.i64('mdate'), entity=S(lit='s', text=True),
                      author=w.atom('author', KEYS, 'bytes', n=33), json=w.atom('json', None, 'str'))
        old_id = w.i64('old_rowid') if shape['old'] else None
        if old_id is not None:
            w.field(node, 'Node', '_local_id').v = some(old_id)
        prev = w.atom('previous_text', None, 'str') if shape['prev'] else None
        cur = w.atom('current_text', None, 'str') if shape['cur'] else None
        nti = w.struct('NodeToInsert', id=nid, node=some(node), entity_name=none(), index=index, old_room_id=w.opt(ROOMS[0] if shape['old'] else None),
                       old_mdate=w.i64('old_mdate'), old_verifying_key=w.opt(KEYS[0] if shape['old'] else None), old_local_id=w.opt(old_id),
                       old_fts_str=w.opt(prev), node_fts_str=w.opt(cur))
        info = dict(shape=shape, ft=index, local=True)
        try:
            r = ctx.exec_fn(nwrite, [Ref(Cell(nti), True), Ref(Cell(Opaque('connection')))])
        except Panic as p:
            report.panic(ctx, w, p, info)
            return
        if r.variant != 0:
            raise Inconclusive('NodeToInsert::write failed although no statement does')
        report.witness('written')
        fts = [(i, x) for i, x in enumerate(sql) if '_node_fts' in x[0]]
        report.path(bool(fts))
        report.witness('indexed-or-not')
        slot = old_id
        if slot is None:
            ins = [x for x in sql if x[0].startswith('INSERT INTO _node (')]
            if len(ins) != 1:
                raise Inconclusive('expected one INSERT INTO _node for a new row, saw %d' % len(ins))
            slot = ins[0][2]
        else:
            upd = [x for x in sql if x[0].startswith('UPDATE _node SET')]
            if len(upd) != 1 or not isinstance(upd[0][1][-1], Int):
                raise Inconclusive('expected one UPDATE _node keyed by the storage slot')
            m = ctx.check_sat(upd[0][1][-1].z() != slot.z())
            if m is not None:
                info['problem'] = 'the stored version is rewritten under another storage slot'
                report.violation(ctx, m, 'local-index-maintenance', info)
                return
        dels = [(i, x) for i, x in fts if "VALUES('delete'" in x[0] and isinstance(x[1][0], Int) and isinstance(x[1][1], S)]
        inss = [(i, x) for i, x in fts if x[0].startswith('INSERT INTO _node_fts (rowid, text)') and isinstance(x[1][0], Int) and isinstance(x[1][1], S)]
        if len(dels) + len(inss) != len(fts):
            raise Inconclusive('an index statement of an unknown form')
        problems = []
        if cur is not None:
            good = zor(*[zand(x[1][0].z() == slot.z(), seq(x[1][1], cur)) for i, x in inss])
            problems.append((zand(zb(index), znot(good)), 'the current text of a locally written row is not put into the full-text index under its slot'))
        if prev is not None:
            good = zor(*[zand(x[1][0].z() == slot.z(), seq(x[1][1], prev)) for i, x in dels])
            problems.append((zand(zb(index), znot(good)), 'the previous text of a locally rewritten row stays in the full-text index'))
        # nothing else may enter or leave the index: every insert carries the current text, every delete the previous text, all under the slot
        for i, x in inss:
            okk = zand(x[1][0].z() == slot.z(), seq(x[1][1], cur)) if cur is not None else False
            problems.append((znot(okk), 'a text other than the current one is put into the full-text index'))
        for i, x in dels:
            okk = zand(x[1][0].z() == slot.z(), seq(x[1][1], prev)) if prev is not None else False
            problems.append((znot(okk), 'a text other than the stored previous one is taken out of the full-text index'))
        if len(inss) > 1 or len(dels) > 1:
            problems.append((True, 'the index is updated twice for one write'))
        if fts:
            problems.append((znot(zb(index)), 'a row written with indexing off touches the full-text index'))
        for cond, what in problems:
            m = ctx.check_sat(cond)
            if m is not None:
                info['problem'] = what
                report.violation(ctx, m, 'local-index-maintenance', info)
                return

    ctx.stubs.update(stubs)
    try:
        ctx.explore(path)
    finally:
        for k in stubs:
            ctx.stubs.pop(k, None)


def explore(ctx, shape, tier, report):
    if shape['part'] == 'local_write':
        return explore_local(ctx, shape, report)
    add_nodes = ctx.method('GraphDatabase', 'add_nodes')
    pm = ctx.method('AuthorisationService', 'process_message')
    nwrite = ctx.method('NodeToInsert', 'write', trait='Writeable')
    events, sql = [], []
    hooks, st = {}, {}

    def auth_send(ctx_, args):
        events.append(('auth', args[1]))
        return Opaque('ready-future', ok(UNIT))
    hooks[ctx.method('AuthorisationService', 'send').name] = auth_send

    def writer_send(ctx_, args):
        events.append(('write', args[1]))
        return Opaque('ready-future', ok(UNIT))
    hooks[ctx.method('BufferedDatabaseWriter', 'send').name] = writer_send
    hooks[ctx.method('DataModel', 'name_for').name] = lambda ctx_, args: some(S(lit='ns.E', text=True))
    hooks[ctx.method('DataModel', 'get_entity').name] = lambda ctx_, args: ok(Ref(st['entity']))
    hooks[ctx.method('RoomAuthorisations', 'validate_node').name] = lambda ctx_, args: True

    def stub_validate_json(ctx_, args, ci, dt):
        return ok(UNIT)

    def stub_extract(ctx_, args, ci, dt):
        v = deref(args[0])
        out = args[1].cell
        if not (isinstance(v, Opaque) and v.tag == 'json-doc'):
            raise Unsupported('extract_json of %r' % (v,))
        out.v = S(atom=EXTRACT(v.data), text=True)
        return ok(UNIT)

    def stub_from_str(ctx_, args, ci, dt):
        v = deref(args[0])
        return ok(Opaque('json-doc', v.as_atom()))

    def prepare(ctx_, args, ci, dt):
        q = deref(args[1])
        while isinstance(q, Ref):
            q = deref(q)
        if not (isinstance(q, S) and q.lit is not None):
            raise Unsupported('SQL text is not a literal: %r' % (q,))
        return ok(Opaque('statement', ' '.join(q.lit.decode().split())))

    def params_of(p):
        return [deref(c.v) for c in p.fields] if isinstance(p, Struct) else [deref(p)]

    def execute(ctx_, args, ci, dt):
        sql.append((deref(args[0]).data, params_of(args[1])))
        return ok(Int(64, False, 1))

    def insert(ctx_, args, ci, dt):
        rid = ctx_.fresh_int('new_rowid', 'i64')
        sql.append((deref(args[0]).data, params_of(args[1]), rid))
        return ok(rid)
    stubs = {'fn:validate_json_for_entity': stub_validate_json, 'fn:extract_json': stub_extract, 'serde_json::from_str': stub_from_str, 'from_str': stub_from_str,
             'Connection::prepare_cached': prepare, 'Connection::prepare': prepare, 'CachedStatement::execute': execute, 'Statement::execute': execute,
             'CachedStatement::insert': insert, 'Statement::insert': insert}

    def path(ctx):
        w = World(ctx)
        del events[:]
        del sql[:]
        ent_new = ctx.method('Entity', 'new')
        entity = Cell(ctx.call(ent_new, []))
        ft = w.boolean('full_text_enabled')
        w.field(entity.v, 'Entity', 'enable_full_text').v = ft
        w.field(entity.v, 'Entity', 'name').v = S(lit='ns.E', text=True)
        st['entity'] = entity
        room = ROOMS[0]
        rows = []
        for i in range(shape['n']):
            nid = S(lit=(b'N%d' % i).ljust(16, b'n'))      # concrete, distinct: the statements are attributed to rows by id
            js = w.atom('n%d_json' % i, None, 'str')
            node = w.node(id=nid, room_id=room, cdate=w.i64('n%d_cdate' % i), mdate=w.i64('n%d_mdate' % i), entity=S(lit='s', text=True),
                          author=w.atom('n%d_author' % i, KEYS, 'bytes', n=33), json=js)
            old_id = w.i64('n%d_old_rowid' % i) if shape['old'] else None
            old_text = w.atom('n%d_old_text' % i, None, 'str') if shape['old'] else None
            if old_id is not None:
                w.field(node, 'Node', '_local_id').v = some(old_id)       # as synchronise_day does before add_nodes
            nti = w.struct('NodeToInsert', id=nid, node=some(node), entity_name=none(), index=False, old_room_id=w.opt(room if shape['old'] else None),
                           old_mdate=w.i64('n%d_old_mdate' % i), old_verifying_key=w.opt(KEYS[0] if shape['old'] else None), old_local_id=w.opt(old_id),
                           old_fts_str=w.opt(old_text), node_fts_str=none())
            rows.append(dict(nid=nid, json=js, old_id=old_id, old_text=old_text, nti=nti))
        info = dict(shape=shape, ft=ft)
        try:
            fields = w.src.struct_fields('GraphDatabase')
            vals = {f: Opaque('gdb-' + f) for f in fields}
            vals['auth_service'] = Struct('AuthorisationService', [Cell(Opaque('auth-sender'))])
            gdb = w.struct('GraphDatabase', **vals)
            co = ctx.exec_fn(add_nodes, [Ref(Cell(gdb)), room, VecV([Cell(r['nti']) for r in rows]), Opaque('oneshot-sender')])
            try:
                ctx.poll(co)
            except SegmentEnd:
                pass
            msgs = [e[1] for e in events if e[0] == 'auth']
            if len(msgs) != 1 or msgs[0].vname != 'AddNodes':
                raise Inconclusive('add_nodes did not hand exactly one AddNodes message to the authorisation service')
            ra = w.struct('RoomAuthorisations', signing_key=w.signing_key(KEYS[0]), rooms=MapV(), max_node_size=w.u64('max'))
            co = ctx.exec_fn(pm, [msgs[0], Ref(Cell(ra), True), Ref(Cell(Opaque('database-writer'))), Ref(Cell(Opaque('event-service'))), Ref(Cell(Opaque('self-sender')))])
            try:
                ctx.poll(co)
            except SegmentEnd:
                pass
            wm = [e[1] for e in events if e[0] == 'write']
            if len(wm) != 1 or wm[0].vname != 'Nodes':
                raise Inconclusive('the AddNodes arm did not hand exactly one Nodes message to the writer')
            to_write = [c for c in deref(wm[0].fields[0].v).elems]
            if len(to_write) != len(rows):
                raise Inconclusive('a row accepted by every modelled check was not handed to the writer')
            for c in to_write:
                r = ctx.exec_fn(nwrite, [Ref(c, True), Ref(Cell(Opaque('connection')))])
                if r.variant != 0:
                    raise Inconclusive('NodeToInsert::write failed although no statement does')
        except Panic as p:
            report.panic(ctx, w, p, info)
            return
        report.witness('written')
        fts = [x for x in sql if '_node_fts' in x[0]]
        report.path(bool(fts))
        report.witness('indexed-or-not')
        info['fts_statements'] = len(fts)
        if report.want_sample(bool(fts)):
            ms = ctx.check_sat(True)
            if ms is not None:
                sc = scenario(ctx, ms, 'sample', info)
                report.sample(sc)
        # the row statements: slot of each row
        for r in rows:
            slot = r['old_id']
            if slot is None:
                ins = [x for x in sql if x[0].startswith('INSERT INTO _node (') and s_eq(x[1][0], r['nid']) is True]
                if len(ins) != 1:
                    raise Inconclusive('expected one INSERT INTO _node for a new row, saw %d' % len(ins))
                slot = ins[0][2]
            want_text = EXTRACT(r['json'].as_atom())
            inserted = zor(*[zand(x[1][0].z() == slot.z(), x[1][1].as_atom() == want_text) for x in fts
                             if x[0].startswith('INSERT INTO _node_fts (rowid, text)') and isinstance(x[1][0], Int) and isinstance(x[1][1], S)])
            m = ctx.check_sat(zand(zb(ft), znot(inserted)))
            if m is not None:
                info['problem'] = 'the text of a synchronised row is not put into the full-text index'
                report.violation(ctx, m, 'index-maintenance', info)
                return
            if r['old_text'] is not None:
                removed = zor(*[zand(x[1][0].z() == slot.z(), seq(x[1][1], r['old_text'])) for x in fts
                                if "VALUES('delete'" in x[0] and isinstance(x[1][0], Int) and isinstance(x[1][1], S)])
                m = ctx.check_sat(zand(zb(ft), znot(removed)))
                if m is not None:
                    info['problem'] = 'the previous text of a replaced row stays in the full-text index'
                    report.violation(ctx, m, 'index-maintenance', info)
                    return
        if fts:
            m = ctx.check_sat(znot(zb(ft)))
            if m is not None:
                info['problem'] = 'a row of an entity with indexing disabled is written into the full-text index'
                report.violation(ctx, m, 'index-maintenance', info)

    ctx.call_hooks.update(hooks)
    ctx.stubs.update(stubs)
    try:
        ctx.explore(path)
    finally:
        for k in hooks:
            ctx.call_hooks.pop(k, None)
        for k in stubs:
            ctx.stubs.pop(k, None)


def scenario(ctx, m, kind, info):
    if info.get('local'):
        sc = dict(kind='search_local_history', property='C17')
        if kind == 'panic':
            sc['expect'] = dict(result='panic')
            return sc
        sc['expect'] = dict(index_consistent=False)
        sc['what'] = 'local write: %s (natively: create, rewrite, delete and create again through the public API, then search for every past and current word)' % info.get('problem')
        sc['signature'] = 'local-index-maintenance:%s' % info.get('problem')
        return sc
    sc = dict(kind='search_synchronised_row', property='C17', update_existing=bool(info['shape']['old']))
    if kind == 'panic':
        sc['expect'] = dict(result='panic')
        return sc
    ft = z3.is_true(m.eval(zb(info['ft']), model_completion=True))
    if kind == 'sample':
        # the native scenario uses an entity with indexing enabled: only those paths are comparable
        if not ft:
            sc['skip_native'] = 'indexing disabled for the entity'
        sc['expect'] = dict(row_present_on_b=True, search_finds_it_on_b=bool(info.get('fts_statements')))
        return sc
    sc['expect'] = dict(row_present_on_b=True, search_finds_it_on_a=True, search_finds_it_on_b=False)
    sc['what'] = 'rows received from a peer: %s (natively: the row is on the receiving instance, the sender finds it by full-text search, the receiver does not)' % info.get('problem')
    sc['signature'] = 'index-maintenance:%s' % info.get('problem')
    return sc
