"""C20 — room synchronisation locks: exclusive, bounded, never lost.
(a) grant step: RoomLockService::acquire_lock (an async fn without suspension point: its coroutine body is polled once and
    must be Ready), one inductive step from an arbitrary state satisfying the representation invariant;
(b) service loop: RoomLockService::start is executed, the task it spawns is captured and polled with a scripted queue of
    RequestLock / Unlock messages (symbolic peers, rooms, limit, receiver liveness): request merging, unlock handling and the
    grant loop are all the real code, from the initial state, checked against a specification folded over the grants."""
import itertools
import z3
from mirsym.interp import *
from mirsym.values import *
from mirsym.models import deref, key_eq
from .lib import *

ROOMS = [S(lit=b'R1'.ljust(16, b'r')), S(lit=b'R2'.ljust(16, b'r')), S(lit=b'R3'.ljust(16, b'r'))]
PEERS = [S(lit=(b'P%d' % i).ljust(32, b'p')) for i in (1, 2, 3)]
REQUIRED_WITNESSES = ['grant', 'no-grant']
BOUNDS = {
    'quick': '1-3 queued peers with 1-3 requested rooms each (rooms symbolic in {R1,R2,R3}, distinct inside a request), 0-2 rooms already locked (symbolic), '
             'free slots a symbolic usize >= 1, every reply channel alive or dropped (symbolic per send); one call, plus two consecutive calls from 2 free slots; '
             'service loop: 13 message scripts of 1-4 messages (requests of 1-2 rooms, unlocks) from the initial state, peers symbolic in {P1,P2}, rooms symbolic in '
             '{R1,R2,R3} (unlocks of rooms that are not held and double unlocks included), limit symbolic in {1,2}, every reply channel alive or dropped per send',
    'thorough': 'same with every request-size combination up to (3,3,3) and 0-3 locked rooms; 27 scripts of up to 5 messages, requests of up to 3 rooms',
}
ASSUMPTIONS = [
    'representation invariant assumed on entry: peer_queue holds exactly the keys of peer_lock_request without duplicates; free slots >= 1 (what both callers guarantee)',
    'UnboundedSender::send = "deliver to the grant list of the peer, or fail because the peer dropped its receiver": both outcomes symbolic, a dropped receiver stays dropped',
    'service loop: mpsc::Receiver::recv is replaced by the scripted queue (the next message is always ready until the script ends); tokio::spawn hands the task to the driver; '
    'connections, room synchronisation tasks and the release on disconnection in peer_inbound_service are outside',
    'liveness is checked in its bounded safety form: after every completely handled message no free slot coexists with a requested room that nobody holds',
]


SCRIPTS = {
    'quick': ['Q1', 'Q2', 'Q1Q1', 'Q2Q1', 'Q1U', 'Q2U', 'Q1Q1U', 'Q1UQ1', 'Q1UU', 'Q2Q1U', 'Q1Q1UU', 'Q1UQ1U', 'Q2UQ1'],
    'thorough': ['Q1', 'Q2', 'Q3', 'Q1Q1', 'Q2Q1', 'Q1Q2', 'Q2Q2', 'Q1U', 'Q2U', 'Q3U', 'Q1Q1U', 'Q2Q2U', 'Q1UQ1', 'Q2UQ2', 'Q1UU', 'Q2UU', 'Q2Q1U', 'Q1Q1UU', 'Q2Q2UU',
                 'Q1UQ1U', 'Q2UQ1', 'Q1Q1Q1', 'Q1Q1Q1U', 'Q1Q1UQ1', 'Q2Q1UU', 'Q1Q1UUQ1', 'Q1Q2UUU'],
}


def parse_script(text):
    out, i = [], 0
    while i < len(text):
        if text[i] == 'Q':
            out.append(('request', int(text[i + 1])))
            i += 2
        else:
            out.append(('unlock', 0))
            i += 1
    return out


def shapes(tier):
    return step_shapes(tier) + [dict(part='service', script=t) for t in SCRIPTS[tier]]


def step_shapes(tier):
    sizes = [(1,), (2,), (3,), (1, 1), (2, 1), (1, 2), (2, 2), (1, 1, 1), (2, 2, 1)]
    if tier == 'thorough':
        sizes = [s for n in (1, 2, 3) for s in itertools.product((1, 2, 3), repeat=n)]
    out = []
    for s in sizes:
        for nl in ((0, 1, 2) if tier == 'quick' else (0, 1, 2, 3)):
            out.append(dict(part='step', sizes=s, locked=nl))
    out.append(dict(part='two_calls', sizes=(2, 1), locked=0))
    out.append(dict(part='two_calls', sizes=(1, 1), locked=1))
    return out


def build_state(ctx, w, shape):
    reqs = MapV()
    queue = VecV()
    spec = []
    for pi, n in enumerate(shape['sizes']):
        rooms = [w.atom('p%d_room%d' % (pi, i), ROOMS, 'uid', n=16) for i in range(n)]
        for a, b in itertools.combinations(rooms, 2):
            ctx.add(znot(seq(a, b)))
        reply = Opaque('sender', PEERS[pi])
        plr = w.struct('PeerLockRequest', rooms=VecV([Cell(r) for r in rooms]), reply=reply)
        reqs.entries.append([PEERS[pi], Cell(plr)])
        queue.elems.insert(0, Cell(PEERS[pi]))     # push_front order of arrival
        spec.append(dict(peer=PEERS[pi], rooms=rooms))
    locked_rooms = [w.atom('locked%d' % i, ROOMS, 'uid', n=16) for i in range(shape['locked'])]
    for a, b in itertools.combinations(locked_rooms, 2):
        ctx.add(znot(seq(a, b)))
    locked = MapV([[r, Cell(UNIT)] for r in locked_rooms], is_set=True)
    avail = ctx.fresh_int('avalaible', 'usize')
    return reqs, queue, locked, avail, spec, locked_rooms


def install_send(ctx, grants):
    def send(ctx_, args, ci, dt):
        sender = deref(args[0])
        room = args[1]
        # a receiver that was found dropped stays dropped
        if any(p is sender.data and r is None for (p, r) in grants):
            grants.append((sender.data, None))
            return err(Struct('SendError', [Cell(room)]))
        alive = ctx_.fresh_bool('receiver_alive')
        if ctx_.branch(alive):
            grants.append((sender.data, room))
            return ok(UNIT)
        grants.append((sender.data, None))
        return err(Struct('SendError', [Cell(room)]))
    ctx.models['UnboundedSender::send'] = send


def in_set(room, rooms):
    return zor(*[seq(room, r) for r in rooms])


def explore(ctx, shape, tier, report):
    if shape['part'] == 'service':
        return explore_service(ctx, shape, tier, report)
    al = ctx.method('RoomLockService', 'acquire_lock')
    grants = []
    install_send(ctx, grants)

    def call(ctx, reqs_c, queue_c, locked_c, avail_c):
        co = ctx.exec_fn(al, [Ref(reqs_c, True), Ref(queue_c, True), Ref(locked_c, True), Ref(avail_c, True)])
        p = ctx.poll(co)
        if not (isinstance(p, Enum) and p.vname == 'Ready'):
            raise Inconclusive('acquire_lock suspended: it is no longer an await-free coroutine')

    def path(ctx):
        w = World(ctx)
        del grants[:]
        reqs, queue, locked, avail, spec, locked_before = build_state(ctx, w, shape)
        ncalls = 2 if shape['part'] == 'two_calls' else 1
        if ncalls == 2:
            ctx.add(avail.v == 2)
        else:
            ctx.add(z3.UGE(avail.v, 1))
        reqs_c, queue_c, locked_c, avail_c = Cell(reqs), Cell(queue), Cell(locked), Cell(avail)
        call_start = []
        info = dict(shape=shape, spec=spec, locked_before=locked_before, avail=avail, grants=grants, ncalls=ncalls, call_start=call_start)
        try:
            for _ in range(ncalls):
                call_start.append(len(grants))
                call(ctx, reqs_c, queue_c, locked_c, avail_c)
        except Panic as p:
            report.panic(ctx, w, p, info)
            return
        ok_grants = [(p, r) for (p, r) in grants if r is not None]
        failed = [(p, r) for (p, r) in grants if r is None]
        info['final'] = dict(reqs=reqs, queue=queue, locked=locked, avail=avail_c.v)
        report.path(bool(ok_grants))
        report.witness('grant' if ok_grants else 'no-grant')
        if report.want_sample(bool(ok_grants)):
            ms = ctx.check_sat(True)
            sc = scenario(ctx, ms, 'sample', info)
            report.sample(sc)
        conds = []
        structural = []
        # at most one grant per call
        if len(ok_grants) > ncalls:
            structural.append('more than one grant in one call')
        # a granted room was free before and is locked afterwards
        now_locked = [k for k, _ in locked.entries]
        for p, r in ok_grants:
            conds.append(('granted room was already locked', znot(in_set(r, locked_before + [x for (_, x) in ok_grants if x is not r]))))
            conds.append(('granted room is not recorded as locked', in_set(r, now_locked)))
            owner = [s for s in spec if s['peer'] is p][0]
            conds.append(('granted room was not requested by that peer', in_set(r, owner['rooms'])))
        # locked set = old locked + granted
        for r in locked_before:
            conds.append(('a locked room was released', in_set(r, now_locked)))
        if len(now_locked) != len(locked_before) + len(ok_grants):
            structural.append('locked set size')
        # free slots decrease by exactly the number of grants
        conds.append(('free-slot accounting', avail_c.v.z() == avail.z() - len(ok_grants)))
        # requests: a room leaves a request only by being granted or by a failed send to that peer
        final_reqs = {k.lit: c.v for k, c in reqs.entries}
        qkeys = [deref(c.v).lit for c in queue.elems]
        if sorted(qkeys) != sorted(final_reqs.keys()) or len(set(qkeys)) != len(qkeys):
            structural.append('queue and request map disagree')
        for s in spec:
            left = final_reqs.get(s['peer'].lit)
            left_rooms = [c.v for c in deref(w.field(left, 'PeerLockRequest', 'rooms').v).elems] if left is not None else []
            removed = len(s['rooms']) - len(left_rooms)
            nfail = len([1 for (p, r) in failed if p is s['peer']])
            ngrant = len([1 for (p, r) in ok_grants if p is s['peer']])
            if removed != nfail + ngrant:
                structural.append('rooms lost from the request of %s' % s['peer'].lit[:2].decode())
            if left is not None and not left_rooms:
                structural.append('an empty request stays queued')
            for r in left_rooms:
                conds.append(('a room appeared in a request', in_set(r, s['rooms'])))
            for a, b in itertools.combinations(left_rooms, 2):
                conds.append(('a room is duplicated in a request', znot(seq(a, b))))
            if not ok_grants or all(p is not s['peer'] for p, _ in ok_grants):
                pass
        # progress of one call: without a grant, every room still requested is locked (nothing grantable was skipped)
        if ncalls == 1 and not ok_grants:
            for s in spec:
                left = final_reqs.get(s['peer'].lit)
                if left is None:
                    continue
                for c in deref(w.field(left, 'PeerLockRequest', 'rooms').v).elems:
                    conds.append(('a free room was not granted although a slot was free', in_set(c.v, locked_before)))
        if structural:
            info['problem'] = structural[0]
            report.violation(ctx, ctx.check_sat(True), 'lock-step', info)
            return
        for label, c in conds:
            m = ctx.check_sat(znot(c))
            if m is not None:
                info['problem'] = label
                report.violation(ctx, m, 'lock-step', info)
                return

    ctx.explore(path)


# ------------------------------------------------------------------------------------------------ the service loop

def explore_service(ctx, shape, tier, report):
    """RoomLockService::start is executed from MIR; the task it spawns is captured and polled with a scripted message queue:
    the whole request / unlock handling and the grant loop are the real code, from the initial state."""
    from mirsym.models import SegmentEnd
    start = ctx.method('RoomLockService', 'start')
    script = parse_script(shape['script'])
    st = {}
    events = []

    def m_channel(ctx_, args, ci, dt):
        return tup(Opaque('lock-sender'), Opaque('lock-receiver'))

    def m_spawn(ctx_, args, ci, dt):
        st['task'] = args[0]
        return Opaque('join-handle')

    def m_recv(ctx_, args, ci, dt):
        if st['next'] >= len(st['messages']):
            raise SegmentEnd('no more messages')
        msg = st['messages'][st['next']]
        events.append(('msg', st['next']))
        st['next'] += 1
        return Opaque('ready-future', some(msg))

    def m_send(ctx_, args, ci, dt):
        sender = deref(args[0])
        room = args[1]
        chan = sender.data
        if chan['dead']:
            events.append(('send', chan, room, False))
            return err(Struct('SendError', [Cell(room)]))
        if ctx_.branch(ctx_.fresh_bool('receiver_alive')):
            events.append(('send', chan, room, True))
            return ok(UNIT)
        chan['dead'] = True
        events.append(('send', chan, room, False))
        return err(Struct('SendError', [Cell(room)]))
    models = {'mpsc::channel': m_channel, 'channel': m_channel, 'tokio::spawn': m_spawn, 'spawn': m_spawn, 'Receiver::recv': m_recv, 'UnboundedSender::send': m_send}
    saved = {k: ctx.models.get(k) for k in models}
    ctx.models.update(models)

    def path(ctx):
        w = World(ctx)
        del events[:]
        st.clear()
        maxl = ctx.fresh_int('max_lock', 'usize')
        ctx.add(z3.And(z3.UGE(maxl.v, 1), z3.ULE(maxl.v, 2)))
        variants = [v[0] for v in w.src.enum_variants('SyncLockMessage')]
        msgs, spec = [], []
        for i, (kind, n) in enumerate(script):
            if kind == 'request':
                peer = w.atom('m%d_peer' % i, PEERS[:2], 'bytes', n=32)
                rooms = [w.atom('m%d_room%d' % (i, k), ROOMS, 'uid', n=16) for k in range(n)]
                for a, b in itertools.combinations(rooms, 2):
                    ctx.add(znot(seq(a, b)))
                chan = dict(msg=i, dead=False)
                msgs.append(Enum('SyncLockMessage', variants.index('RequestLock'), 'RequestLock', [Cell(peer), Cell(VecV([Cell(r) for r in rooms])), Cell(Opaque('sender', chan))]))
                spec.append(dict(kind='request', peer=peer, rooms=rooms, chan=chan))
            else:
                room = w.atom('m%d_room' % i, ROOMS, 'uid', n=16)
                msgs.append(Enum('SyncLockMessage', variants.index('Unlock'), 'Unlock', [Cell(room)]))
                spec.append(dict(kind='unlock', room=room))
        st['messages'], st['next'] = msgs, 0
        info = dict(part='service', shape=shape, spec=spec, maxl=maxl, events=events)
        try:
            ctx.exec_fn(start, [maxl])
            task = st.get('task')
            if not isinstance(task, Coroutine):
                raise Inconclusive('RoomLockService::start no longer spawns one task')
            try:
                ctx.poll(task)
                raise Inconclusive('the lock task ended although its channel is open')
            except SegmentEnd:
                pass
        except Panic as p:
            report.panic(ctx, w, p, info)
            return
        if st['next'] != len(msgs):
            raise Inconclusive('the lock task did not consume every message')
        grants = [e for e in events if e[0] == 'send' and e[3]]
        report.path(bool(grants))
        report.witness('grant' if grants else 'no-grant')
        report.want_sample(bool(grants))
        if True:        # few paths: each is also run on the real service
            ms = ctx.check_sat(True)
            if ms is not None:
                report.sample(service_scenario(ctx, ms, 'sample', info))
        # the specification, folded over the observed events; everything is a formula over the three room names
        F, T = z3.BoolVal(False), z3.BoolVal(True)
        held = {R.lit: F for R in ROOMS}
        pending = {P.lit: {R.lit: F for R in ROOMS} for P in PEERS[:2]}
        is_room = lambda r, R: seq(r, R)
        count = lambda: z3.Sum([z3.If(held[R.lit], 1, 0) for R in ROOMS])
        maxi = z3.BV2Int(maxl.v)
        conds = []

        def settle(after):
            # a message has been handled completely: no free slot may coexist with a requested room that nobody holds
            for P in PEERS[:2]:
                for R in ROOMS:
                    conds.append(('after message %d: a requested room is free and a slot is free, yet it was not granted' % after,
                                  zor(count() >= maxi, znot(pending[P.lit][R.lit]), held[R.lit])))
        cur = None
        for e in events:
            if e[0] == 'msg':
                if cur is not None:
                    settle(cur)
                cur = e[1]
                m = spec[cur]
                if m['kind'] == 'request':
                    for P in PEERS[:2]:
                        for R in ROOMS:
                            pending[P.lit][R.lit] = zor(pending[P.lit][R.lit], zand(seq(m['peer'], P), zor(*[is_room(r, R) for r in m['rooms']])))
                else:
                    for R in ROOMS:
                        held[R.lit] = zand(held[R.lit], znot(is_room(m['room'], R)))
            else:
                _, chan, room, okk = e
                owner = spec[chan['msg']]['peer']
                if okk:
                    conds.append(('a room is granted while another connection holds it', zand(*[zor(znot(is_room(room, R)), znot(held[R.lit])) for R in ROOMS])))
                    conds.append(('a room is granted that the connection is not waiting for',
                                  zor(*[zand(seq(owner, P), is_room(room, R), pending[P.lit][R.lit]) for P in PEERS[:2] for R in ROOMS])))
                    for R in ROOMS:
                        held[R.lit] = zor(held[R.lit], is_room(room, R))
                    conds.append(('more rooms are granted than the limit', count() <= maxi))
                for P in PEERS[:2]:
                    for R in ROOMS:
                        pending[P.lit][R.lit] = zand(pending[P.lit][R.lit], znot(zand(seq(owner, P), is_room(room, R))))
        if cur is not None:
            settle(cur)
        for label, c in conds:
            m = ctx.check_sat(znot(c))
            if m is not None:
                info['problem'] = label
                report.violation(ctx, m, 'lock-service', info)
                return

    try:
        ctx.explore(path)
    finally:
        for k, v in saved.items():
            if v is None:
                ctx.models.pop(k, None)
            else:
                ctx.models[k] = v


def service_scenario(ctx, m, kind, info):
    c = Concretizer(m)
    msgs = []
    unreplayable = []
    for i, sp in enumerate(info['spec']):
        if sp['kind'] == 'request':
            # when does the receiver of this request's channel go away ?  (before the message during which the first send fails)
            drop_at, cur_msg, ok_in_msg = None, None, {}
            for e in info['events']:
                if e[0] == 'msg':
                    cur_msg = e[1]
                elif e[1] is sp['chan']:
                    if e[3]:
                        ok_in_msg[cur_msg] = True
                    elif drop_at is None:
                        drop_at = cur_msg
                        if ok_in_msg.get(cur_msg):
                            unreplayable.append('a receiver is dropped between two grants of one message')
            msgs.append(dict(kind='request', peer=c.atom(sp['peer']), rooms=[c.atom(r) for r in sp['rooms']], drop_before_message=drop_at))
        else:
            msgs.append(dict(kind='unlock', room=c.atom(sp['room'])))
    # grants observed after each message, in order
    per, cur = [[] for _ in msgs], None
    for e in info['events']:
        if e[0] == 'msg':
            cur = e[1]
        elif e[3]:
            per[cur].append([c.atom(info['spec'][e[1]['msg']]['peer']), c.atom(e[2])])
    sc = dict(kind='lock_service', property='C20', max_lock=c.int(info['maxl']), messages=msgs, script=info['shape']['script'])
    if kind == 'panic':
        sc['expect'] = dict(result='panic')
        return sc
    sc['expect'] = dict(grants=[sorted(x) for x in per])
    sc['preferred'] = not unreplayable
    if unreplayable:
        sc['skip_native'] = unreplayable[0]
    if kind != 'sample':
        sc['what'] = 'RoomLockService: %s' % info.get('problem')
        import re as _re
        sc['signature'] = 'lock-service:%s' % _re.sub(r'after message \d+: ', '', info.get('problem') or '')
    return sc


def scenario(ctx, m, kind, info):
    if info.get('part') == 'service':
        return service_scenario(ctx, m, kind, info)
    c = Concretizer(m)
    peers = []
    alive = {}
    drop_before_call = {}       # the receiver of a peer goes away right before the call during which its first send fails
    for k, (p, r) in enumerate(info['grants']):
        alive.setdefault(p.lit.decode(), []).append(r is not None)
        if r is None and p.lit.decode() not in drop_before_call:
            drop_before_call[p.lit.decode()] = len([1 for st in info.get('call_start', [0]) if st <= k]) - 1
    for s in info['spec']:
        peers.append(dict(peer=s['peer'].lit.decode(), rooms=[c.atom(r) for r in s['rooms']]))
    sc = dict(kind='acquire_lock', property='C20', peers=peers, locked=[c.atom(r) for r in info['locked_before']], avalaible=c.int(info['avail']),
              calls=info['ncalls'], receiver_alive=alive, drop_before_call=drop_before_call)
    if kind == 'panic':
        sc['expect'] = dict(result='panic')
        return sc
    fin = info.get('final')
    if fin is not None:
        w = World(ctx)
        exp = dict(result='Ok', avalaible=c.int(fin['avail']), locked=sorted(c.atom(k) for k, _ in fin['locked'].entries),
                   queue=[deref(x.v).lit.decode() for x in fin['queue'].elems],
                   requests={k.lit.decode(): [c.atom(x.v) for x in deref(w.field(v.v, 'PeerLockRequest', 'rooms').v).elems] for k, v in fin['reqs'].entries})
        sc['expect'] = exp
    if kind != 'sample':
        sc['what'] = 'acquire_lock: %s' % info.get('problem')
        sc['signature'] = 'lock-step:%s' % info.get('problem')
    return sc
