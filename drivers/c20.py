"""C20 — room synchronisation locks: exclusive, bounded, never lost (grant step).
Entry point from MIR: RoomLockService::acquire_lock (an async fn without suspension point: its
coroutine body is polled once and must be Ready).  One inductive step from an arbitrary state
satisfying the representation invariant."""
import itertools
import z3
from mirsym.interp import *
from mirsym.values import *
from mirsym.models import deref, key_eq
from .lib import *

ROOMS = [S(lit=b'R1'.ljust(16, b'r')), S(lit=b'R2'.ljust(16, b'r')), S(lit=b'R3'.ljust(16, b'r'))]
PEERS = [S(lit=(b'P%d' % i).ljust(32, b'p')) for i in (1, 2, 3)]
REQUIRED_WITNESSES = ['grant', 'no-grant']
BOUNDS = {
    'quick': '1-3 queued peers with 1-3 requested rooms each (rooms symbolic in {R1,R2,R3}, distinct inside a request), 0-2 rooms already locked (symbolic), '
             'free slots a symbolic usize >= 1, every reply channel alive or dropped (symbolic per send); one call, plus two consecutive calls from 2 free slots',
    'thorough': 'same with every request-size combination up to (3,3,3) and 0-3 locked rooms',
}
ASSUMPTIONS = [
    'representation invariant assumed on entry: peer_queue holds exactly the keys of peer_lock_request without duplicates; free slots >= 1 (what both callers guarantee)',
    'UnboundedSender::send = "deliver to the grant list of the peer, or fail because the peer dropped its receiver": both outcomes symbolic, a dropped receiver stays dropped',
    'the request / unlock handlers themselves are inline in a spawned task (multi-state coroutine over mpsc::Receiver) and are outside; their two call patterns '
    'are re-stated in the driver (driver code, not real code)',
]


def shapes(tier):
    sizes = [(1,), (2,), (3,), (1, 1), (2, 1), (1, 2), (2, 2), (1, 1, 1), (2, 2, 1)]
    if tier == 'thorough':
        sizes = [s for n in (1, 2, 3) for s in itertools.product((1, 2, 3), repeat=n)]
    out = []
    for s in sizes:
        for nl in ((0, 1, 2) if tier == 'quick' else (0, 1, 2, 3)):
            out.append(dict(part='step', sizes=s, locked=nl))
    out.append(dict(part='two_calls', sizes=(2, 1), locked=0))
    out.append(dict(part='two_calls', sizes=(1, 1), locked=1))
    return out


def build_state(ctx, w, shape):
    reqs = MapV()
    queue = VecV()
    spec = []
    for pi, n in enumerate(shape['sizes']):
        rooms = [w.atom('p%d_room%d' % (pi, i), ROOMS, 'uid', n=16) for i in range(n)]
        for a, b in itertools.combinations(rooms, 2):
            ctx.add(znot(seq(a, b)))
        reply = Opaque('sender', PEERS[pi])
        plr = w.struct('PeerLockRequest', rooms=VecV([Cell(r) for r in rooms]), reply=reply)
        reqs.entries.append([PEERS[pi], Cell(plr)])
        queue.elems.insert(0, Cell(PEERS[pi]))     # push_front order of arrival
        spec.append(dict(peer=PEERS[pi], rooms=rooms))
    locked_rooms = [w.atom('locked%d' % i, ROOMS, 'uid', n=16) for i in range(shape['locked'])]
    for a, b in itertools.combinations(locked_rooms, 2):
        ctx.add(znot(seq(a, b)))
    locked = MapV([[r, Cell(UNIT)] for r in locked_rooms], is_set=True)
    avail = ctx.fresh_int('avalaible', 'usize')
    return reqs, queue, locked, avail, spec, locked_rooms


def install_send(ctx, grants):
    def send(ctx_, args, ci, dt):
        sender = deref(args[0])
        room = args[1]
        # a receiver that was found dropped stays dropped
        if any(p is sender.data and r is None for (p, r) in grants):
            grants.append((sender.data, None))
            return err(Struct('SendError', [Cell(room)]))
        alive = ctx_.fresh_bool('receiver_alive')
        if ctx_.branch(alive):
            grants.append((sender.data, room))
            return ok(UNIT)
        grants.append((sender.data, None))
        return err(Struct('SendError', [Cell(room)]))
    ctx.models['UnboundedSender::send'] = send


def in_set(room, rooms):
    return zor(*[seq(room, r) for r in rooms])


def explore(ctx, shape, tier, report):
    al = ctx.method('RoomLockService', 'acquire_lock')
    grants = []
    install_send(ctx, grants)

    def call(ctx, reqs_c, queue_c, locked_c, avail_c):
        co = ctx.exec_fn(al, [Ref(reqs_c, True), Ref(queue_c, True), Ref(locked_c, True), Ref(avail_c, True)])
        p = ctx.poll(co)
        if not (isinstance(p, Enum) and p.vname == 'Ready'):
            raise Inconclusive('acquire_lock suspended: it is no longer an await-free coroutine')

    def path(ctx):
        w = World(ctx)
        del grants[:]
        reqs, queue, locked, avail, spec, locked_before = build_state(ctx, w, shape)
        ncalls = 2 if shape['part'] == 'two_calls' else 1
        if ncalls == 2:
            ctx.add(avail.v == 2)
        else:
            ctx.add(z3.UGE(avail.v, 1))
        reqs_c, queue_c, locked_c, avail_c = Cell(reqs), Cell(queue), Cell(locked), Cell(avail)
        info = dict(shape=shape, spec=spec, locked_before=locked_before, avail=avail, grants=grants, ncalls=ncalls)
        try:
            for _ in range(ncalls):
                call(ctx, reqs_c, queue_c, locked_c, avail_c)
        except Panic as p:
            report.panic(ctx, w, p, info)
            return
        ok_grants = [(p, r) for (p, r) in grants if r is not None]
        failed = [(p, r) for (p, r) in grants if r is None]
        info['final'] = dict(reqs=reqs, queue=queue, locked=locked, avail=avail_c.v)
        report.path(bool(ok_grants))
        report.witness('grant' if ok_grants else 'no-grant')
        if report.want_sample(bool(ok_grants)):
            ms = ctx.check_sat(True)
            sc = scenario(ctx, ms, 'sample', info)
            report.sample(sc)
        conds = []
        structural = []
        # at most one grant per call
        if len(ok_grants) > ncalls:
            structural.append('more than one grant in one call')
        # a granted room was free before and is locked afterwards
        now_locked = [k for k, _ in locked.entries]
        for p, r in ok_grants:
            conds.append(('granted room was already locked', znot(in_set(r, locked_before + [x for (_, x) in ok_grants if x is not r]))))
            conds.append(('granted room is not recorded as locked', in_set(r, now_locked)))
            owner = [s for s in spec if s['peer'] is p][0]
            conds.append(('granted room was not requested by that peer', in_set(r, owner['rooms'])))
        # locked set = old locked + granted
        for r in locked_before:
            conds.append(('a locked room was released', in_set(r, now_locked)))
        if len(now_locked) != len(locked_before) + len(ok_grants):
            structural.append('locked set size')
        # free slots decrease by exactly the number of grants
        conds.append(('free-slot accounting', avail_c.v.z() == avail.z() - len(ok_grants)))
        # requests: a room leaves a request only by being granted or by a failed send to that peer
        final_reqs = {k.lit: c.v for k, c in reqs.entries}
        qkeys = [deref(c.v).lit for c in queue.elems]
        if sorted(qkeys) != sorted(final_reqs.keys()) or len(set(qkeys)) != len(qkeys):
            structural.append('queue and request map disagree')
        for s in spec:
            left = final_reqs.get(s['peer'].lit)
            left_rooms = [c.v for c in deref(w.field(left, 'PeerLockRequest', 'rooms').v).elems] if left is not None else []
            removed = len(s['rooms']) - len(left_rooms)
            nfail = len([1 for (p, r) in failed if p is s['peer']])
            ngrant = len([1 for (p, r) in ok_grants if p is s['peer']])
            if removed != nfail + ngrant:
                structural.append('rooms lost from the request of %s' % s['peer'].lit[:2].decode())
            if left is not None and not left_rooms:
                structural.append('an empty request stays queued')
            for r in left_rooms:
                conds.append(('a room appeared in a request', in_set(r, s['rooms'])))
            for a, b in itertools.combinations(left_rooms, 2):
                conds.append(('a room is duplicated in a request', znot(seq(a, b))))
            if not ok_grants or all(p is not s['peer'] for p, _ in ok_grants):
                pass
        # progress of one call: without a grant, every room still requested is locked (nothing grantable was skipped)
        if ncalls == 1 and not ok_grants:
            for s in spec:
                left = final_reqs.get(s['peer'].lit)
                if left is None:
                    continue
                for c in deref(w.field(left, 'PeerLockRequest', 'rooms').v).elems:
                    conds.append(('a free room was not granted although a slot was free', in_set(c.v, locked_before)))
        if structural:
            info['problem'] = structural[0]
            report.violation(ctx, ctx.check_sat(True), 'lock-step', info)
            return
        for label, c in conds:
            m = ctx.check_sat(znot(c))
            if m is not None:
                info['problem'] = label
                report.violation(ctx, m, 'lock-step', info)
                return

    ctx.explore(path)


def scenario(ctx, m, kind, info):
    c = Concretizer(m)
    peers = []
    alive = {}
    for p, r in info['grants']:
        alive.setdefault(p.lit.decode(), []).append(r is not None)
    for s in info['spec']:
        peers.append(dict(peer=s['peer'].lit.decode(), rooms=[c.atom(r) for r in s['rooms']]))
    sc = dict(kind='acquire_lock', property='C20', peers=peers, locked=[c.atom(r) for r in info['locked_before']], avalaible=c.int(info['avail']),
              calls=info['ncalls'], receiver_alive=alive)
    if kind == 'panic':
        sc['expect'] = dict(result='panic')
        return sc
    fin = info.get('final')
    if fin is not None:
        w = World(ctx)
        exp = dict(result='Ok', avalaible=c.int(fin['avail']), locked=sorted(c.atom(k) for k, _ in fin['locked'].entries),
                   queue=[deref(x.v).lit.decode() for x in fin['queue'].elems],
                   requests={k.lit.decode(): [c.atom(x.v) for x in deref(w.field(v.v, 'PeerLockRequest', 'rooms').v).elems] for k, v in fin['reqs'].entries})
        sc['expect'] = exp
    if kind != 'sample':
        sc['what'] = 'acquire_lock: %s' % info.get('problem')
        sc['signature'] = 'lock-step:%s' % info.get('problem')
    return sc
