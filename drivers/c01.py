"""C01 — local writes are applied only with the room's rights at that time.
Entry points executed from MIR: RoomAuthorisations::validate_entity_mutation (and everything below it)."""
import itertools
import z3
from mirsym.interp import *
from mirsym.values import *
from mirsym.models import deref
from .lib import *

KEYS = [S(lit=b'K1'.ljust(33, b'k')), S(lit=b'K2'.ljust(33, b'k')), S(lit=b'K3'.ljust(33, b'k'))]
ROOMS = [S(lit=b'R1'.ljust(16, b'r')), S(lit=b'R2'.ljust(16, b'r')), S(lit=b'R3'.ljust(16, b'r'))]   # R3 is never registered
ENTS = [S(lit='E'), S(lit='F'), S(lit='*')]

SPECS = {
    'quick': [
        (dict(admins=1, groups=[dict(users=2, user_admins=1, rights=2)]),
         dict(admins=1, groups=[dict(users=1, user_admins=0, rights=1)])),
    ],
    'thorough': [
        (dict(admins=2, groups=[dict(users=2, user_admins=1, rights=3)]),
         dict(admins=1, groups=[dict(users=2, user_admins=1, rights=2)])),
        (dict(admins=1, groups=[dict(users=2, user_admins=0, rights=2), dict(users=1, user_admins=1, rights=2)]),
         dict(admins=1, groups=[dict(users=1, user_admins=0, rights=1), dict(users=1, user_admins=0, rights=1)])),
        (dict(admins=3, groups=[dict(users=3, user_admins=0, rights=1)]),
         dict(admins=0, groups=[dict(users=1, user_admins=0, rights=3)])),
    ],
}

# node shape: (has_room, has_node, old) ; old: 0 = none, 1 = old row without room, 2 = old row in a room
NODE_SHAPES = [(r, n, o) for r in (0, 1) for n in (0, 1) for o in (0, 1, 2)
               if not (n == 0 and o == 0)       # a reference always has an old row
               and not (o == 2 and r == 0)]     # a row in a room keeps a room (create_node_to_mutate)


CHILD_CONFIGS = [(), (1,), (2,), (1, 1)]     # number of child mutations per sub_nodes entry


def shapes(tier):
    out = []
    for i in range(len(SPECS[tier])):
        for ns in NODE_SHAPES:
            for ndel in ((0, 1) if tier == 'thorough' else (0,)):
                for cc in CHILD_CONFIGS:
                    out.append(dict(spec=i, node=ns, ndel=ndel, children=cc))
        if tier == 'quick':
            out.append(dict(spec=i, node=(1, 1, 2), ndel=1, children=(1,)))
    return out


class Built:
    pass


def build_insert(w, node_shape, ndel, children, date, caller, entity):
    ctx = w.ctx
    has_room, has_node, old = node_shape
    tag = 'n0'
    nid = w.atom(tag + '_id', None, 'uid', n=16)
    room = w.atom(tag + '_room', ROOMS, 'uid', n=16) if has_room else None
    node = None
    size = None
    if has_node:
        node = w.node(id=nid, room_id=room, cdate=w.i64(tag + '_cdate'), mdate=date, entity=w.atom(tag + '_short', None, 'str'),
                      author=w.atom(tag + '_nodeauthor', KEYS, 'bytes', n=33), json=w.atom(tag + '_json', None, 'str'))
        size = w.u64(tag + '_size')
        ctx.node_size_list.append((node, size))
    old_node = None
    old_author = old_room = None
    if old:
        old_author = w.atom(tag + '_oldauthor', KEYS, 'bytes', n=33)
        old_room = w.atom(tag + '_oldroom', ROOMS, 'uid', n=16) if old == 2 else None
        old_node = w.node(id=nid, room_id=old_room, cdate=w.i64(tag + '_ocdate'), mdate=w.i64(tag + '_omdate'),
                          entity=w.atom(tag + '_oshort', None, 'str'), author=old_author)
    ntm = w.struct('NodeToMutate', id=nid, date=date, entity=entity, room_id=w.opt(room), node=w.opt(node),
                   node_fts_str=none(), old_node=w.opt(old_node), old_fts_str=none(), enable_full_text=True)
    dels = []
    for i in range(ndel):
        dels.append(w.edge(src=nid, src_entity=w.atom('%s_del%d_se' % (tag, i), None, 'str'), label=w.atom('%s_del%d_l' % (tag, i), None, 'str'),
                           dest=w.atom('%s_del%d_dest' % (tag, i), None, 'uid', n=16), cdate=w.i64('%s_del%d_cdate' % (tag, i)),
                           author=w.atom('%s_del%d_author' % (tag, i), KEYS, 'bytes', n=33)))
    subs = MapV()
    kids = []
    for ei, cnt in enumerate(children):
        lst = []
        for ci in range(cnt):
            cid = w.atom('c%d_%d_id' % (ei, ci), None, 'uid', n=16)
            cntm = w.struct('NodeToMutate', id=cid, date=date, entity=w.atom('c%d_%d_entity' % (ei, ci), None, 'str'), room_id=none(),
                            node=none(), node_fts_str=none(), old_node=none(), old_fts_str=none(), enable_full_text=True)
            child = w.struct('InsertEntity', name=S(lit='c'), node_to_mutate=cntm, edge_deletions=VecV(), edge_deletions_log=VecV(),
                             edge_insertions=VecV(), sub_nodes=MapV())
            lst.append(Cell(child))
            kids.append(child)
        subs.entries.append([S(lit='field%d' % ei), Cell(VecV(lst))])
    ie = w.struct('InsertEntity', name=S(lit='x'), node_to_mutate=ntm, edge_deletions=VecV([Cell(d) for d in dels]),
                  edge_deletions_log=VecV(), edge_insertions=VecV(), sub_nodes=subs)
    info = Built()
    info.level, info.entity, info.room, info.has_node, info.old_author, info.old_room, info.size, info.ndel = 0, entity, room, has_node, old_author, old_room, size, ndel
    info.old = old
    info.ie = ie
    info.kids = kids
    info.children = children
    return ie, info


def row_obligation(info, rooms_ev, caller, date):
    """what the property requires for one row of the tree when the whole mutation is accepted"""
    sys_ent = zor(*[seq(info.entity, S(lit=x)) for x in SYS_ENTS])
    if not info.has_node:
        return znot(sys_ent)          # nothing is written for this row
    if info.room is None:
        return znot(sys_ent)          # rows outside any room are not governed by a room
    if info.old_author is None:
        which_self = z3.BoolVal(True)
    else:
        which_self = seq(info.old_author, caller)
    need = []
    for rid in [info.room] + ([info.old_room] if info.old_room is not None else []):
        g_self = granted_in(rooms_ev, rid, caller, info.entity, date, 'self')
        g_all = granted_in(rooms_ev, rid, caller, info.entity, date, 'all')
        need.append(z3.If(which_self, g_self, g_all))
    return zand(znot(sys_ent), *need)


def explore(ctx, shape, tier, report):
    """Inductive step over the mutation tree: the call on one node is executed for real; its recursive
    calls on the children are replaced by a stub that records the call and returns an arbitrary verdict
    (induction hypothesis: an accepted child subtree satisfies the property).  Shown: Ok => this row's
    obligation holds, and every child was validated, with the same state and caller, and accepted."""
    spec1, spec2 = SPECS[tier][shape['spec']]
    vem = ctx.method('RoomAuthorisations', 'validate_entity_mutation')
    state = {}

    def rec_stub(ctx, args):
        st = state['cur']
        child = deref(args[1])
        same_self = deref(args[0]) is st['ra']
        same_key = s_eq(deref(args[2]), st['caller'])
        verdict_ok = ctx.choose(2, 'child verdict') == 0
        st['visits'].append((child, same_self, same_key, verdict_ok))
        if verdict_ok:
            return ok(VecV())
        return err(Opaque('child-error'))

    ctx.call_hooks[vem.name] = rec_stub

    def path(ctx):
        w = World(ctx)
        ctx.node_size_list = []
        caller = w.atom('caller', KEYS, 'bytes', n=33)
        r1, ev1 = build_room(w, ROOMS[0], spec1, KEYS, ENTS, 'r1')
        r2, ev2 = build_room(w, ROOMS[1], spec2, KEYS, ENTS, 'r2')
        rooms_ev = [ev1, ev2]
        rooms = MapV([[ROOMS[0], r1], [ROOMS[1], r2]])
        max_size = w.u64('max_node_size')
        ra = w.struct('RoomAuthorisations', signing_key=w.signing_key(caller), rooms=rooms, max_node_size=max_size)
        date = w.i64('op_date')
        entity = w.atom('n0_entity', None, 'str')
        ctx.add(znot(seq(entity, S(lit='sys.Room'))))
        ie, info = build_insert(w, shape['node'], shape['ndel'], shape['children'], date, caller, entity)
        st = dict(ra=ra, caller=caller, visits=[])
        state['cur'] = st
        ctxinfo = dict(rooms=rooms_ev, caller=caller, date=date, nodes=[info], max_size=max_size, visits=st['visits'])
        try:
            res = ctx.exec_fn(vem, [Ref(Cell(ra)), Ref(Cell(ie), True), Ref(Cell(caller))])
        except Panic as p:
            report.panic(ctx, w, p, ctxinfo)
            return
        accepted = res.variant == 0
        report.path(accepted)
        if report.want_sample(accepted):
            ms = ctx.check_sat(True)
            if ms is not None:
                sc = scenario(ctx, ms, 'sample', ctxinfo)
                sc['expect'] = dict(result='Ok' if accepted else 'Err')
                report.sample(sc)
        if not accepted:
            report.witness('rejected')
            return
        # children: each validated exactly once, same state and caller, and accepted
        visited = [v[0] for v in st['visits']]
        kids_ok = all(any(v[0] is k for v in st['visits']) for k in info.kids) and len(visited) == len(info.kids) \
            and all(v[1] and v[3] for v in st['visits'])
        keys_ok = zand(*[zb(v[2]) for v in st['visits']])
        prop = zand(row_obligation(info, rooms_ev, caller, date), keys_ok,
                    z3.ULE(info.size.z(), max_size.z()) if info.has_node else True)
        if not kids_ok:
            m = ctx.check_sat(True)
            ctxinfo['children_problem'] = True
            report.violation(ctx, m, 'accepted-without-right', ctxinfo)
            return
        m = ctx.check_sat(znot(prop))
        if m is not None:
            ctxinfo['culprit'] = info
            report.violation(ctx, m, 'accepted-without-right', ctxinfo)
        else:
            report.witness('accepted')

    try:
        ctx.explore(path)
    finally:
        ctx.call_hooks.pop(vem.name, None)


REQUIRED_WITNESSES = ['accepted', 'rejected']
BOUNDS = {
    'quick': 'rooms R1,R2 registered + R3 unknown; R1: 1 admin entry, 1 group (2 user, 1 user-admin, 2 right entries); R2: 1 admin, 1 group (1 user, 1 right); '
             'keys in {K1,K2,K3}; right entities in {E,F,*}; mutation trees of depth <= 2 (root + one nested child), every combination of '
             'room present/absent, row written/reference, old row none/roomless/in a room; dates, flags, ids, sizes unconstrained 64-bit / boolean',
    'thorough': 'as quick with 3 room configurations (up to 3 entries per list, 2 groups per room), depth <= 3, 0-1 reference deletions per row',
}
ASSUMPTIONS = [
    'InsertEntity shapes obey what create_node_to_mutate builds: node.room_id = room_id, node.mdate = date, old row id = id, '
    'a row that was in a room keeps a room id, a reference (node = None) has an old row',
    'the root entity is not a sys.* entity (room mutations are checked by the room-mutation driver)',
    'bincode::serialized_size(node) is an arbitrary u64 per node',
]


def _failed_roles(m, n, rooms_ev, caller, date):
    roles = []
    ev = lambda t: z3.is_true(m.eval(zb(t), model_completion=True))
    if not n.has_node:
        return roles
    sys_ent = zor(*[seq(n.entity, S(lit=x)) for x in SYS_ENTS])
    if ev(sys_ent):
        roles.append('authorisation-entity')
        return roles
    if n.room is None:
        return roles
    which_self = z3.BoolVal(True) if n.old_author is None else seq(n.old_author, caller)
    w = 'self' if ev(which_self) else 'all'
    if not ev(granted_in(rooms_ev, n.room, caller, n.entity, date, w)):
        roles.append('destination-room')
    if n.old_room is not None and not ev(granted_in(rooms_ev, n.old_room, caller, n.entity, date, w)):
        roles.append('departing-room')
    return roles


def scenario(ctx, m, kind, info):
    c = Concretizer(m)
    rooms_ev, caller, date, nodes = info['rooms'], info['caller'], info['date'], info['nodes']
    n = nodes[0]
    w = World(ctx)
    nid = deref(w.field(w.field(n.ie, 'InsertEntity', 'node_to_mutate').v, 'NodeToMutate', 'id').v)
    d = dict(id=c.atom(nid, 'uid'), date=c.int(date), entity=c.atom(n.entity, 'ent'), room=None if n.room is None else c.atom(n.room, 'room'))
    over = False
    if n.has_node:
        over = bool(z3.is_true(m.eval(z3.UGT(n.size.z(), info['max_size'].z()), model_completion=True)))
        d['node'] = dict(room=d['room'], cdate=0, mdate=c.int(date), short='9.9', author=c.atom(caller, 'key'),
                         json=('{"pad":"%s"}' % ('x' * 600)) if over else '{}')
    else:
        d['node'] = None
    if n.old:
        d['old'] = dict(room=None if n.old_room is None else c.atom(n.old_room, 'room'), cdate=0, mdate=0, short='9.9',
                        author=c.atom(n.old_author, 'key'))
    else:
        d['old'] = None
    d['dels'] = [dict(src=d['id'], dest='dest%d' % i, src_entity='9.9', label='l', cdate=0, author=c.atom(caller, 'key')) for i in range(n.ndel)]
    bad_children = bool(info.get('children_problem'))
    verdicts = {}
    for v in info.get('visits', []):
        for ki, kid in enumerate(n.kids):
            if kid is v[0]:
                verdicts[ki] = v[3]
    subs = {}
    k = 0
    for ei, cnt in enumerate(n.children):
        lst = []
        for ci in range(cnt):
            k += 1
            if bad_children or (kind == 'sample' and verdicts.get(k - 1) is False):
                # a child that must be refused: a new row in a room nobody registered
                lst.append(dict(id='child%d' % k, date=c.int(date), entity='E', room='room-not-registered', old=None, dels=[], subs={},
                                node=dict(room='room-not-registered', cdate=0, mdate=c.int(date), short='9.9', author=c.atom(caller, 'key'), json='{}')))
            else:
                lst.append(dict(id='child%d' % k, date=c.int(date), entity='E', room=None, old=None, dels=[], subs={},
                                node=dict(room=None, cdate=0, mdate=c.int(date), short='9.9', author=c.atom(caller, 'key'), json='{}')))
        subs['field%d' % ei] = lst
    d['subs'] = subs
    sc = dict(kind='entity_mutation', property='C01', rooms=[c.room(ev) for ev in rooms_ev], caller=c.atom(caller, 'key'),
              max_node_size=400 if over else 1 << 40, tree=d)
    if kind == 'panic':
        sc['expect'] = dict(result='panic')
        return sc
    if kind == 'sample':
        return sc
    sc['expect'] = dict(result='Ok')
    if bad_children:
        ref = not n.has_node
        sc['what'] = 'validate_entity_mutation accepts a tree without validating (or despite a refused) nested mutation%s' % (
            ' below an unchanged reference' if ref else '')
        sc['signature'] = 'accepted-without-right:nested-mutation-not-validated' + (':under-reference' if ref else '')
        return sc
    roles = _failed_roles(m, n, rooms_ev, caller, date)
    if not roles and over:
        roles = ['oversized-row']
    if not roles and not z3.is_true(m.eval(zand(*[zb(v[2]) for v in info['visits']]), model_completion=True)):
        roles = ['child-validated-for-another-key']
    sc['what'] = 'validate_entity_mutation accepts a row lacking: %s' % ','.join(roles)
    sc['signature'] = 'accepted-without-right:%s' % ('+'.join(roles) or 'unknown')
    return sc
