"""C01 — local writes are applied only with the room's rights at that time.
Entry points executed from MIR: RoomAuthorisations::validate_entity_mutation (and everything below it)."""
import itertools
import z3
from mirsym.interp import *
from mirsym.values import *
from mirsym.models import deref
from .lib import *

KEYS = [S(lit=b'K1'.ljust(33, b'k')), S(lit=b'K2'.ljust(33, b'k')), S(lit=b'K3'.ljust(33, b'k'))]
ROOMS = [S(lit=b'R1'.ljust(16, b'r')), S(lit=b'R2'.ljust(16, b'r')), S(lit=b'R3'.ljust(16, b'r'))]   # R3 is never registered
ENTS = [S(lit='E'), S(lit='F'), S(lit='*')]

SPECS = {
    # quick: fixed key / entity patterns (building the rooms does not fork); dates and flags symbolic
    'quick': [
        (dict(admins=['K1', 'K1'], groups=[dict(users=['K2', 'K2', 'K3'], user_admins=['K3', 'K3'], rights=['E', 'E', '*'])]),
         dict(admins=['K2'], groups=[dict(users=['K1', 'K3'], user_admins=[], rights=['E', '*'])])),
    ],
    # thorough: in addition symbolic keys / entities per entry (every aliasing pattern), two groups per room
    'thorough': [
        (dict(admins=['K1', 'K1'], groups=[dict(users=['K2', 'K2', 'K3'], user_admins=['K3'], rights=['E', 'E', '*'])]),
         dict(admins=['K2'], groups=[dict(users=['K1', 'K3'], user_admins=[], rights=['E', '*'])])),
        (dict(admins=['K1', 'K2', 'K1'], groups=[dict(users=['K2', 'K2', 'K2'], user_admins=['K3', 'K3'], rights=['*', 'E', '*']),
                                                dict(users=['K3'], user_admins=['K1'], rights=['F', 'E'])]),
         dict(admins=['K3'], groups=[dict(users=['K1', 'K1'], user_admins=['K2'], rights=['E', 'F', 'E']), dict(users=['K2'], user_admins=[], rights=['*'])])),
        (dict(admins=2, groups=[dict(users=2, user_admins=1, rights=2)]),
         dict(admins=1, groups=[dict(users=1, user_admins=0, rights=1)])),
    ],
}

# node shape: (has_room, has_node, old) ; old: 0 = none, 1 = old row without room, 2 = old row in a room
NODE_SHAPES = [(r, n, o) for r in (0, 1) for n in (0, 1) for o in (0, 1, 2)
               if not (n == 0 and o == 0)       # a reference always has an old row
               and not (o == 2 and r == 0)]     # a row in a room keeps a room (create_node_to_mutate)


CHILD_CONFIGS = [(), (1,), (2,), (1, 1)]     # number of child mutations per sub_nodes entry


def mutation_shapes(tier):
    out = []
    for i in range(len(SPECS[tier])):
        for ns in NODE_SHAPES:
            for ndel in ((0, 1) if tier == 'thorough' else (0,)):
                for cc in CHILD_CONFIGS:
                    out.append(dict(part='mutation', spec=i, node=ns, ndel=ndel, children=cc))
        if tier == 'quick':
            out.append(dict(part='mutation', spec=i, node=(1, 1, 2), ndel=1, children=(1,)))
    return out


class Built:
    pass


def build_insert(w, node_shape, ndel, children, date, caller, entity):
    ctx = w.ctx
    has_room, has_node, old = node_shape
    tag = 'n0'
    nid = w.atom(tag + '_id', None, 'uid', n=16)
    room = w.atom(tag + '_room', ROOMS, 'uid', n=16) if has_room else None
    node = None
    size = None
    if has_node:
        node = w.node(id=nid, room_id=room, cdate=w.i64(tag + '_cdate'), mdate=date, entity=w.atom(tag + '_short', None, 'str'),
                      author=w.atom(tag + '_nodeauthor', KEYS, 'bytes', n=33), json=w.atom(tag + '_json', None, 'str'))
        size = w.u64(tag + '_size')
        ctx.node_size_list.append((node, size))
    old_node = None
    old_author = old_room = None
    if old:
        old_author = w.atom(tag + '_oldauthor', KEYS, 'bytes', n=33)
        old_room = w.atom(tag + '_oldroom', ROOMS, 'uid', n=16) if old == 2 else None
        old_mdate = w.i64(tag + '_omdate')
        old_node = w.node(id=nid, room_id=old_room, cdate=w.i64(tag + '_ocdate'), mdate=old_mdate,
                          entity=w.atom(tag + '_oshort', None, 'str'), author=old_author)
    ntm = w.struct('NodeToMutate', id=nid, date=date, entity=entity, room_id=w.opt(room), node=w.opt(node),
                   node_fts_str=none(), old_node=w.opt(old_node), old_fts_str=none(), enable_full_text=True)
    dels = []
    for i in range(ndel):
        dels.append(w.edge(src=nid, src_entity=w.atom('%s_del%d_se' % (tag, i), None, 'str'), label=w.atom('%s_del%d_l' % (tag, i), None, 'str'),
                           dest=w.atom('%s_del%d_dest' % (tag, i), None, 'uid', n=16), cdate=w.i64('%s_del%d_cdate' % (tag, i)),
                           author=w.atom('%s_del%d_author' % (tag, i), KEYS, 'bytes', n=33)))
    subs = MapV()
    kids = []
    for ei, cnt in enumerate(children):
        lst = []
        for ci in range(cnt):
            cid = w.atom('c%d_%d_id' % (ei, ci), None, 'uid', n=16)
            cntm = w.struct('NodeToMutate', id=cid, date=date, entity=w.atom('c%d_%d_entity' % (ei, ci), None, 'str'), room_id=none(),
                            node=none(), node_fts_str=none(), old_node=none(), old_fts_str=none(), enable_full_text=True)
            child = w.struct('InsertEntity', name=S(lit='c'), node_to_mutate=cntm, edge_deletions=VecV(), edge_deletions_log=VecV(),
                             edge_insertions=VecV(), sub_nodes=MapV())
            lst.append(Cell(child))
            kids.append(child)
        subs.entries.append([S(lit='field%d' % ei), Cell(VecV(lst))])
    ie = w.struct('InsertEntity', name=S(lit='x'), node_to_mutate=ntm, edge_deletions=VecV([Cell(d) for d in dels]),
                  edge_deletions_log=VecV(), edge_insertions=VecV(), sub_nodes=subs)
    info = Built()
    info.level, info.entity, info.room, info.has_node, info.old_author, info.old_room, info.size, info.ndel = 0, entity, room, has_node, old_author, old_room, size, ndel
    info.old = old
    info.old_mdate = old_mdate if old else None
    info.ie = ie
    info.kids = kids
    info.children = children
    return ie, info


def row_obligation(info, rooms_ev, caller, date):
    """what the property requires for one row of the tree when the whole mutation is accepted"""
    sys_ent = zor(*[seq(info.entity, S(lit=x)) for x in SYS_ENTS])
    if not info.has_node:
        return znot(sys_ent)          # nothing is written for this row
    if info.room is None:
        return znot(sys_ent)          # rows outside any room are not governed by a room
    if info.old_author is None:
        which_self = z3.BoolVal(True)
    else:
        which_self = seq(info.old_author, caller)
    need = []
    for rid in [info.room] + ([info.old_room] if info.old_room is not None else []):
        g_self = granted_in(rooms_ev, rid, caller, info.entity, date, 'self')
        g_all = granted_in(rooms_ev, rid, caller, info.entity, date, 'all')
        need.append(z3.If(which_self, g_self, g_all))
    return zand(znot(sys_ent), *need)


def explore_mutation(ctx, shape, tier, report):
    """Inductive step over the mutation tree: the call on one node is executed for real; its recursive
    calls on the children are replaced by a stub that records the call and returns an arbitrary verdict
    (induction hypothesis: an accepted child subtree satisfies the property).  Shown: Ok => this row's
    obligation holds, and every child was validated, with the same state and caller, and accepted."""
    spec1, spec2 = SPECS[tier][shape['spec']]
    vem = ctx.method('RoomAuthorisations', 'validate_entity_mutation')
    state = {}

    def rec_stub(ctx, args):
        st = state['cur']
        child = deref(args[1])
        same_self = deref(args[0]) is st['ra']
        same_key = s_eq(deref(args[2]), st['caller'])
        verdict_ok = ctx.choose(2, 'child verdict') == 0
        st['visits'].append((child, same_self, same_key, verdict_ok))
        if verdict_ok:
            return ok(VecV())
        return err(Opaque('child-error'))

    ctx.call_hooks[vem.name] = rec_stub

    def path(ctx):
        w = World(ctx)
        ctx.node_size_list = []
        caller = w.atom('caller', KEYS, 'bytes', n=33)
        r1, ev1 = build_room(w, ROOMS[0], spec1, KEYS, ENTS, 'r1')
        r2, ev2 = build_room(w, ROOMS[1], spec2, KEYS, ENTS, 'r2')
        rooms_ev = [ev1, ev2]
        rooms = MapV([[ROOMS[0], r1], [ROOMS[1], r2]])
        max_size = w.u64('max_node_size')
        ra = w.struct('RoomAuthorisations', signing_key=w.signing_key(caller), rooms=rooms, max_node_size=max_size)
        date = w.i64('op_date')
        entity = w.atom('n0_entity', None, 'str')
        ctx.add(znot(seq(entity, S(lit='sys.Room'))))
        ie, info = build_insert(w, shape['node'], shape['ndel'], shape['children'], date, caller, entity)
        st = dict(ra=ra, caller=caller, visits=[])
        state['cur'] = st
        ctxinfo = dict(part='mutation', rooms=rooms_ev, caller=caller, date=date, nodes=[info], max_size=max_size, visits=st['visits'])
        try:
            res = ctx.exec_fn(vem, [Ref(Cell(ra)), Ref(Cell(ie), True), Ref(Cell(caller))])
        except Panic as p:
            report.panic(ctx, w, p, ctxinfo)
            return
        accepted = res.variant == 0
        report.path(accepted)
        if report.want_sample(accepted):
            ms = ctx.check_sat(True)
            if ms is not None:
                sc = scenario_mutation(ctx, ms, 'sample', ctxinfo)
                sc['expect'] = dict(result='Ok' if accepted else 'Err')
                report.sample(sc)
        if not accepted:
            report.witness('rejected')
            return
        # children: each validated exactly once, same state and caller, and accepted
        visited = [v[0] for v in st['visits']]
        kids_ok = all(any(v[0] is k for v in st['visits']) for k in info.kids) and len(visited) == len(info.kids) \
            and all(v[1] and v[3] for v in st['visits'])
        keys_ok = zand(*[zb(v[2]) for v in st['visits']])
        prop = zand(row_obligation(info, rooms_ev, caller, date), keys_ok,
                    z3.ULE(info.size.z(), max_size.z()) if info.has_node else True)
        if not kids_ok:
            m = ctx.check_sat(True)
            ctxinfo['children_problem'] = True
            report.violation(ctx, m, 'accepted-without-right', ctxinfo)
            return
        m = ctx.check_sat(znot(prop))
        if m is not None:
            ctxinfo['culprit'] = info
            report.violation(ctx, m, 'accepted-without-right', ctxinfo)
        else:
            report.witness('accepted')

    try:
        ctx.explore(path)
    finally:
        ctx.call_hooks.pop(vem.name, None)


REQUIRED_WITNESSES = ['accepted', 'rejected']
BOUNDS = {
    'quick': 'rooms R1,R2 registered + R3 unknown; R1: admin history [K1,K1], one group with user history [K2,K2,K3], user-admin history [K3,K3], rights [E,E,*]; '
             'R2: admin [K2], one group with users [K1,K3], rights [E,*]; caller/authors symbolic in {K1,K2,K3}, entity any string; one mutation-tree node '
             '(every combination of room present/absent, row written/reference, old row none/roomless/in a room, 0-2 nested mutations, by induction any depth); '
             'deletion queries of <= 2 rows; every date 64-bit symbolic, every flag symbolic, ids and sizes symbolic',
    'thorough': 'as quick plus a second fixed configuration (3-entry histories, 2 groups per room) and a configuration whose entry keys / entities are '
                'symbolic (every aliasing pattern of 2-entry lists); 0-1 reference deletions per row; deletion queries of <= 3 rows',
}
ASSUMPTIONS = [
    'InsertEntity shapes obey what create_node_to_mutate builds: node.room_id = room_id, node.mdate = date, old row id = id, '
    'a row that was in a room keeps a room id, a reference (node = None) has an old row',
    'the root entity is not a sys.* entity (room mutations are checked by the room-mutation driver)',
    'bincode::serialized_size(node) is an arbitrary u64 per node',
]


def _failed_roles(m, n, rooms_ev, caller, date):
    roles = []
    ev = lambda t: z3.is_true(m.eval(zb(t), model_completion=True))
    if not n.has_node:
        return roles
    sys_ent = zor(*[seq(n.entity, S(lit=x)) for x in SYS_ENTS])
    if ev(sys_ent):
        roles.append('authorisation-entity')
        return roles
    if n.room is None:
        return roles
    which_self = z3.BoolVal(True) if n.old_author is None else seq(n.old_author, caller)
    w = 'self' if ev(which_self) else 'all'
    if not ev(granted_in(rooms_ev, n.room, caller, n.entity, date, w)):
        roles.append('destination-room')
    if n.old_room is not None and not ev(granted_in(rooms_ev, n.old_room, caller, n.entity, date, w)):
        roles.append('departing-room')
    return roles


def scenario_mutation(ctx, m, kind, info):
    c = Concretizer(m)
    rooms_ev, caller, date, nodes = info['rooms'], info['caller'], info['date'], info['nodes']
    n = nodes[0]
    w = World(ctx)
    nid = deref(w.field(w.field(n.ie, 'InsertEntity', 'node_to_mutate').v, 'NodeToMutate', 'id').v)
    d = dict(id=c.atom(nid, 'uid'), date=c.int(date), entity=c.atom(n.entity, 'ent'), room=None if n.room is None else c.atom(n.room, 'room'))
    over = False
    rel = 'lt'
    if n.has_node:
        rel = size_relation(m, n.size, info['max_size'])
        over = rel == 'gt'
        d['node'] = dict(room=d['room'], cdate=0, mdate=c.int(date), short='9.9', author=c.atom(caller, 'key'), json='{}')
    else:
        d['node'] = None
    if n.old:
        d['old'] = dict(room=None if n.old_room is None else c.atom(n.old_room, 'room'), cdate=0, mdate=c.int(n.old_mdate) if getattr(n, 'old_mdate', None) is not None else 0, short='9.9',
                        author=c.atom(n.old_author, 'key'))
    else:
        d['old'] = None
    d['dels'] = [dict(src=d['id'], dest='dest%d' % i, src_entity='9.9', label='l', cdate=0, author=c.atom(caller, 'key')) for i in range(n.ndel)]
    bad_children = bool(info.get('children_problem'))
    verdicts = {}
    for v in info.get('visits', []):
        for ki, kid in enumerate(n.kids):
            if kid is v[0]:
                verdicts[ki] = v[3]
    subs = {}
    k = 0
    for ei, cnt in enumerate(n.children):
        lst = []
        for ci in range(cnt):
            k += 1
            if bad_children or (kind == 'sample' and verdicts.get(k - 1) is False):
                # a child that must be refused: a new row in a room nobody registered
                lst.append(dict(id='child%d' % k, date=c.int(date), entity='E', room='room-not-registered', old=None, dels=[], subs={},
                                node=dict(room='room-not-registered', cdate=0, mdate=c.int(date), short='9.9', author=c.atom(caller, 'key'), json='{}')))
            else:
                lst.append(dict(id='child%d' % k, date=c.int(date), entity='E', room=None, old=None, dels=[], subs={},
                                node=dict(room=None, cdate=0, mdate=c.int(date), short='9.9', author=c.atom(caller, 'key'), json='{}')))
        subs['field%d' % ei] = lst
    d['subs'] = subs
    sc = dict(kind='entity_mutation', property='C01', rooms=[c.room(ev) for ev in rooms_ev], caller=c.atom(caller, 'key'),
              size_rel=rel, tree=d)
    if kind == 'panic':
        sc['expect'] = dict(result='panic')
        return sc
    if kind == 'sample':
        return sc
    sc['expect'] = dict(result='Ok')
    if bad_children:
        ref = not n.has_node
        sc['what'] = 'validate_entity_mutation accepts a tree without validating (or despite a refused) nested mutation%s' % (
            ' below an unchanged reference' if ref else '')
        sc['signature'] = 'accepted-without-right:nested-mutation-not-validated' + (':under-reference' if ref else '')
        return sc
    roles = _failed_roles(m, n, rooms_ev, caller, date)
    if not roles and over:
        roles = ['oversized-row']
    if not roles and not z3.is_true(m.eval(zand(*[zb(v[2]) for v in info['visits']]), model_completion=True)):
        roles = ['child-validated-for-another-key']
    sc['what'] = 'validate_entity_mutation accepts a row lacking: %s' % ','.join(roles)
    sc['signature'] = 'accepted-without-right:%s' % ('+'.join(roles) or 'unknown')
    return sc


# =============================================================================================
# part 'deletion': RoomAuthorisations::validate_deletion

SHORTS = {'sys.Room': '0.0', 'sys.Authorisation': '0.1', 'sys.UserAuth': '0.2', 'sys.EntityRight': '0.3'}
DAY = 86400000


def deletion_shapes(tier):
    out = []
    for i in range(len(SPECS[tier])):
        # three rows per deletion on the two-groups-per-room configuration did not finish in 3 hours: two there
        nmax = 2 if tier == 'quick' or len(SPECS[tier][i][0]['groups']) > 1 else 3
        for nn in range(0, nmax + 1):
            for ne in range(0, nmax + 1 - nn):
                if nn + ne == 0:
                    continue
                # which of the rows are in a room: all combinations for <= 2 items, a few for 3
                combos = list(itertools.product((0, 1), repeat=nn + ne))
                for cmb in combos:
                    out.append(dict(part='deletion', spec=i, nodes=cmb[:nn], edges=cmb[nn:]))
    return out


def now_of(ctx):
    for e in ctx.events:
        if e[0] == 'now':
            return e[1]
    return None


def robust_now(ctx, now, dates):
    """constraints that make a model replayable under the real clock: now() lies within an hour of the
    wall clock and no other date of the scenario lies within a day of it"""
    import time as _t
    T = int(_t.time() * 1000)
    cs = [now.z() >= T - 3600000, now.z() <= T + 3600000]
    for d in dates:
        if not d.concrete:
            cs.append(z3.Or(d.z() <= T - DAY, d.z() >= T + DAY))
    return z3.And(*cs)


def all_dates(rooms_ev):
    out = []
    for ev in rooms_ev:
        out += [d for (_, d, _) in ev.admins]
        for g in ev.groups:
            out += [d for (_, d, _) in g.users] + [d for (_, d, _) in g.user_admins] + [d for (_, d, _, _) in g.rights]
    return out


def explore_deletion(ctx, shape, tier, report):
    spec1, spec2 = SPECS[tier][shape['spec']]
    vd = ctx.method('RoomAuthorisations', 'validate_deletion')

    def path(ctx):
        w = World(ctx)
        caller = w.atom('caller', KEYS, 'bytes', n=33)
        r1, ev1 = build_room(w, ROOMS[0], spec1, KEYS, ENTS, 'r1')
        r2, ev2 = build_room(w, ROOMS[1], spec2, KEYS, ENTS, 'r2')
        rooms_ev = [ev1, ev2]
        rooms = MapV([[ROOMS[0], r1], [ROOMS[1], r2]])
        ra = w.struct('RoomAuthorisations', signing_key=w.signing_key(caller), rooms=rooms, max_node_size=w.u64('max_node_size'))
        items = []
        nodes_v = []
        for i, in_room in enumerate(shape['nodes']):
            tag = 'dn%d' % i
            name = w.atom(tag + '_name', None, 'str')
            short = w.atom(tag + '_short', None, 'str')
            room = w.atom(tag + '_room', ROOMS, 'uid', n=16) if in_room else None
            author = w.atom(tag + '_author', KEYS, 'bytes', n=33)
            date = w.i64(tag + '_date')
            nid = w.atom(tag + '_id', None, 'uid', n=16)
            mdate = w.i64(tag + '_mdate')
            node = w.node(id=nid, room_id=room, cdate=w.i64(tag + '_cdate'), mdate=mdate, entity=short, author=author)
            nodes_v.append(Cell(w.struct('NodeDelete', node=node, name=name, date=date)))
            items.append(dict(kind='node', name=name, short=short, room=room, author=author, date=date, id=nid, mdate=mdate))
        edges_v = []
        for i, in_room in enumerate(shape['edges']):
            tag = 'de%d' % i
            name = w.atom(tag + '_name', None, 'str')
            short = w.atom(tag + '_short', None, 'str')
            # DeletionQuery::build: src_name is the entity's name, edge.src_entity its short name
            for long_, short_ in SHORTS.items():
                ctx.add(seq(name, S(lit=long_)) == seq(short, S(lit=short_)))
                ctx.add(znot(seq(short, S(lit=long_))))
            room = w.atom(tag + '_room', ROOMS, 'uid', n=16) if in_room else None
            author = w.atom(tag + '_author', KEYS, 'bytes', n=33)
            date = w.i64(tag + '_date')
            src = w.atom(tag + '_src', None, 'uid', n=16)
            dest = w.atom(tag + '_dest', None, 'uid', n=16)
            cdate = w.i64(tag + '_cdate')
            edge = w.edge(src=src, src_entity=short, label=w.atom(tag + '_label', None, 'str'), dest=dest, cdate=cdate, author=author)
            edges_v.append(Cell(w.struct('EdgeDelete', edge=edge, src_name=name, room_id=w.opt(room), date=date)))
            items.append(dict(kind='edge', name=name, short=short, room=room, author=author, date=date, src=src, dest=dest, cdate=cdate))
        dq = w.deletion_query(nodes=VecV(nodes_v), node_log=VecV(), updated_nodes=VecV(), edges=VecV(edges_v), edge_log=VecV())
        info = dict(part='deletion', rooms=rooms_ev, caller=caller, items=items)
        try:
            res = ctx.exec_fn(vd, [Ref(Cell(ra)), Ref(Cell(dq), True)])
        except Panic as p:
            report.panic(ctx, w, p, info)
            return
        now = now_of(ctx)
        info['now'] = now
        accepted = res.variant == 0
        report.path(accepted)
        dates = all_dates(rooms_ev) + [it['date'] for it in items]
        if report.want_sample(accepted):
            ms = ctx.check_sat(robust_now(ctx, now, dates))
            if ms is not None:
                sc = scenario_deletion(ctx, ms, 'sample', info)
                sc['expect'] = dict(result='Ok' if accepted else 'Err')
                report.sample(sc)
        if not accepted:
            report.witness('rejected')
            return
        obl = []
        for it in items:
            sys_ent = zor(*[seq(it['name'], S(lit=x)) for x in SYS_ENTS])
            o = [znot(sys_ent)]
            if it['room'] is not None:
                own = seq(it['author'], caller)
                o.append(z3.If(own, granted_in(rooms_ev, it['room'], caller, it['name'], it['date'], 'self'),
                               granted_in(rooms_ev, it['room'], caller, it['name'], now, 'all')))
            it['obligation'] = zand(*o)
            obl.append(it['obligation'])
        # the tombstones: one per deleted row that is in a room, for that room and row
        node_log = deref(w.field(dq, 'DeletionQuery', 'node_log').v).elems
        edge_log = deref(w.field(dq, 'DeletionQuery', 'edge_log').v).elems
        exp_nodes = [it for it in items if it['kind'] == 'node' and it['room'] is not None]
        exp_edges = [it for it in items if it['kind'] == 'edge' and it['room'] is not None]
        logs_ok = len(node_log) == len(exp_nodes) and len(edge_log) == len(exp_edges)
        log_terms = []
        if logs_ok:
            for c, it in zip(node_log, exp_nodes):
                e = c.v
                log_terms += [seq(w.field(e, 'NodeDeletionEntry', 'room_id').v, it['room']), seq(w.field(e, 'NodeDeletionEntry', 'id').v, it['id']),
                              w.field(e, 'NodeDeletionEntry', 'mdate').v.z() == it['mdate'].z(),
                              w.field(e, 'NodeDeletionEntry', 'deletion_date').v.z() == now.z(),
                              seq(w.field(e, 'NodeDeletionEntry', 'verifying_key').v, caller)]
            for c, it in zip(edge_log, exp_edges):
                e = c.v
                log_terms += [seq(w.field(e, 'EdgeDeletionEntry', 'room_id').v, it['room']), seq(w.field(e, 'EdgeDeletionEntry', 'src').v, it['src']),
                              seq(w.field(e, 'EdgeDeletionEntry', 'dest').v, it['dest']),
                              w.field(e, 'EdgeDeletionEntry', 'deletion_date').v.z() == now.z(),
                              seq(w.field(e, 'EdgeDeletionEntry', 'verifying_key').v, caller)]
        prop = zand(*obl)
        m = ctx.check_sat(zand(znot(prop), robust_now(ctx, now, dates)))
        if m is None:
            m = ctx.check_sat(znot(prop))
        if m is not None:
            report.violation(ctx, m, 'deletion-accepted-without-right', info)
            return
        if not logs_ok:
            report.violation(ctx, ctx.check_sat(True), 'deletion-log-incomplete', info)
            return
        m = ctx.check_sat(znot(zand(*log_terms)))
        if m is not None:
            report.violation(ctx, m, 'deletion-log-wrong', info)
            return
        report.witness('accepted')

    ctx.explore(path)


def scenario_deletion(ctx, m, kind, info):
    c = Concretizer(m)
    rooms_ev, caller = info['rooms'], info['caller']
    items = []
    roles = []
    for it in info['items']:
        d = dict(kind=it['kind'], name=c.atom(it['name'], 'ent'), short=c.atom(it['short'], 'short') or '9.9',
                 room=None if it['room'] is None else c.atom(it['room'], 'room'), author=c.atom(it['author'], 'key'), date=c.int(it['date']))
        if d['short'] == '':
            d['short'] = '9.9'
        if it['kind'] == 'node':
            d.update(id=c.atom(it['id'], 'uid'), mdate=c.int(it['mdate']))
        else:
            d.update(src=c.atom(it['src'], 'uid'), dest=c.atom(it['dest'], 'uid'), cdate=c.int(it['cdate']))
        items.append(d)
        if 'obligation' in it and kind != 'sample' and z3.is_false(m.eval(zb(it['obligation']), model_completion=True)):
            sys_ent = any(z3.is_true(m.eval(seq(it['name'], S(lit=x)), model_completion=True)) for x in SYS_ENTS)
            roles.append('%s:%s' % (it['kind'], 'authorisation-entity' if sys_ent else 'no-right'))
    sc = dict(kind='deletion', property='C01', rooms=[c.room(ev) for ev in rooms_ev], caller=c.atom(caller, 'key'), items=items,
              model_now=c.int(info['now']) if info.get('now') is not None else None)
    if kind == 'panic':
        sc['expect'] = dict(result='panic')
        return sc
    if kind == 'sample':
        return sc
    sc['expect'] = dict(result='Ok')
    sc['what'] = 'validate_deletion accepts: %s (%s)' % (kind, ','.join(sorted(set(roles))))
    sc['signature'] = '%s:%s' % (kind, '+'.join(sorted(set(roles))) or 'log')
    return sc


# =============================================================================================
# part 'room': RoomAuthorisations::validate_room_mutation / validate_authorisation_mutation

def room_shapes(tier):
    out = []
    for mode in ('create', 'update'):
        for adm in (0, 1):
            for grp in ('none', 'existing', 'new'):
                if mode == 'create' and grp == 'existing':
                    continue
                combos = [(0, 0, 0)] if grp == 'none' else [(r, u, a) for r in (0, 1) for u in (0, 1) for a in (0, 1)]
                for (r, u, a) in combos:
                    if adm + r + u + a == 0 and grp != 'new':
                        continue
                    if tier == 'quick' and adm + r + u + a > 2:
                        continue
                    out.append(dict(part='room', mode=mode, admin=adm, group=grp, rights=r, users=u, user_admins=a))
    return out


def leaf_insert(w, tag, row_node):
    nid = w.field(row_node, 'Node', 'id').v
    ntm = w.struct('NodeToMutate', id=nid, date=w.field(row_node, 'Node', 'mdate').v, entity=S(lit='sys.UserAuth'), room_id=none(), node=some(row_node),
                   node_fts_str=none(), old_node=none(), old_fts_str=none(), enable_full_text=True)
    return w.struct('InsertEntity', name=S(lit=tag), node_to_mutate=ntm, edge_deletions=VecV(), edge_deletions_log=VecV(), edge_insertions=VecV(), sub_nodes=MapV())


def explore_room(ctx, shape, tier, report):
    from . import c10
    spec1, spec2 = SPECS[tier][0]
    vrm = ctx.method('RoomAuthorisations', 'validate_room_mutation')

    def path(ctx):
        w = World(ctx)
        caller = w.atom('caller', KEYS, 'bytes', n=33)
        r1, ev1 = build_room(w, ROOMS[0], spec1, KEYS, ENTS, 'r1')
        old_snapshot = clone_val(r1.v)
        rooms = MapV([[ROOMS[0], r1]])
        ra = w.struct('RoomAuthorisations', signing_key=w.signing_key(caller), rooms=rooms, max_node_size=w.u64('max'))
        date = w.i64('op_date')
        update = shape['mode'] == 'update'
        rid = ROOMS[0] if update else ROOMS[2]
        added = dict(admins=[], groups={})
        subs = MapV()
        if shape['admin']:
            k, d, e = w.atom('new_adm_key', KEYS, 'bytes', n=33), w.i64('new_adm_date'), w.boolean('new_adm_en')
            un, nid = c10.user_row(ctx, w, 'newadm', k, d, e, caller)
            subs.entries.append([S(lit='admin'), Cell(VecV([Cell(leaf_insert(w, 'admin', w.field(un, 'UserNode', 'node').v))]))])
            added['admins'].append((k, d, e))
        gev = None
        if shape['group'] != 'none':
            existing = shape['group'] == 'existing'
            gid = ev1.groups[0].id if existing else S(lit=b'NEWGROUP'.ljust(16, b'.'))
            gsubs = MapV()
            gadd = dict(rights=[], users=[], user_admins=[])
            if shape['rights']:
                en, d, ms, ma = w.atom('new_rgt_ent', ENTS, 'str'), w.i64('new_rgt_date'), w.boolean('new_rgt_ms'), w.boolean('new_rgt_ma')
                rn, nid = c10.right_row(ctx, w, 'newrgt', en, d, ms, ma, caller)
                gsubs.entries.append([S(lit='rights'), Cell(VecV([Cell(leaf_insert(w, 'rights', w.field(rn, 'EntityRightNode', 'node').v))]))])
                gadd['rights'].append((en, d, ms, ma))
            for fld, flag, tagk in (('users', shape['users'], 'usr'), ('user_admin', shape['user_admins'], 'uad')):
                if flag:
                    k, d, e = w.atom('new_%s_key' % tagk, KEYS, 'bytes', n=33), w.i64('new_%s_date' % tagk), w.boolean('new_%s_en' % tagk)
                    un, nid = c10.user_row(ctx, w, 'new' + tagk, k, d, e, caller)
                    gsubs.entries.append([S(lit=fld), Cell(VecV([Cell(leaf_insert(w, fld, w.field(un, 'UserNode', 'node').v))]))])
                    gadd['users' if fld == 'users' else 'user_admins'].append((k, d, e))
            gnode = w.node(id=gid, room_id=None, cdate=date, mdate=date, entity=S(lit='0.1'), author=caller, json=w.atom('g_json', None, 'str'))
            gold = w.node(id=gid, room_id=None, cdate=date, mdate=w.i64('g_old_mdate'), entity=S(lit='0.1'), author=caller) if existing else None
            gntm = w.struct('NodeToMutate', id=gid, date=date, entity=S(lit='sys.Authorisation'), room_id=none(), node=some(gnode), node_fts_str=none(),
                            old_node=w.opt(gold), old_fts_str=none(), enable_full_text=True)
            gie = w.struct('InsertEntity', name=S(lit='authorisations'), node_to_mutate=gntm, edge_deletions=VecV(), edge_deletions_log=VecV(), edge_insertions=VecV(),
                           sub_nodes=gsubs)
            subs.entries.append([S(lit='authorisations'), Cell(VecV([Cell(gie)]))])
            added['groups'][gid.lit] = gadd
        rnode = w.node(id=rid, room_id=None, cdate=date, mdate=date, entity=S(lit='0.0'), author=caller, json=w.atom('room_json', None, 'str'))
        rold = w.node(id=rid, room_id=None, cdate=date, mdate=w.i64('room_old_mdate'), entity=S(lit='0.0'), author=caller) if update else None
        rntm = w.struct('NodeToMutate', id=rid, date=date, entity=S(lit='sys.Room'), room_id=none(), node=some(rnode), node_fts_str=none(), old_node=w.opt(rold),
                        old_fts_str=none(), enable_full_text=True)
        ie = w.struct('InsertEntity', name=S(lit='room'), node_to_mutate=rntm, edge_deletions=VecV(), edge_deletions_log=VecV(), edge_insertions=VecV(), sub_nodes=subs)
        info = dict(part='room', shape=shape, rooms=[ev1], caller=caller, date=date, added=added)
        ctx.map_order = 'all'
        try:
            res = ctx.exec_fn(vrm, [Ref(Cell(ra)), Ref(Cell(ie), True), Ref(Cell(caller))])
        except Panic as p:
            report.panic(ctx, w, p, info)
            return
        finally:
            ctx.map_order = 'fixed'
        accepted = res.variant == 0 and deref(res.fields[0].v).variant == 1
        report.path(accepted)
        if report.want_sample(accepted):
            ms = ctx.check_sat(True)
            if ms is not None:
                sc = scenario_room(ctx, ms, 'sample', info)
                sc['expect'] = dict(result='Ok' if res.variant == 0 else 'Err')
                report.sample(sc)
        # the registered room is never touched by validation
        same = deep_eq_rooms(r1.v, old_snapshot)
        if same is not True:
            mm = ctx.check_sat(znot(zb(same)))
            if mm is not None:
                info['problem'] = 'the registered room was modified by a validation'
                report.violation(ctx, mm, 'room-mutation', info)
                return
        if not accepted:
            report.witness('rejected')
            return
        newroom = deref(res.fields[0].v).fields[0].v
        conds = []
        if update:
            # (a) only an admin of the room as it was may change its definition
            conds.append(('caller is not an admin of the room being changed', is_admin(ev1, caller, date)))
            # (b) nothing that existed is removed or altered: every old list is a prefix of the new one
            pres = prefix_preserved(w, old_snapshot, newroom)
            if pres is not True:
                conds.append(('an existing entry was removed or altered', zb(pres)))
        else:
            # creation: when the definition has any content the creator must be an admin of what it creates
            if shape['admin'] or shape['rights'] or shape['users'] or shape['user_admins']:
                evn = RoomEvents(rid)
                evn.admins = list(added['admins'])
                conds.append(('room created by a key that is not one of its admins', is_admin(evn, caller, date)))
        for label, c in conds:
            m = ctx.check_sat(znot(c))
            if m is not None:
                info['problem'] = label
                report.violation(ctx, m, 'room-mutation', info)
                return
        report.witness('accepted')

    ctx.explore(path)


def deep_eq_rooms(a, b):
    from .c15 import deep_eq
    return deep_eq(a, b)


def prefix_preserved(w, old_room, new_room):
    """every (key -> history) of the old room is a prefix of the history of the same key in the new room
    (keys are matched semantically: the result is a python bool or a z3 formula)"""
    from .c15 import deep_eq

    def list_prefix(ol, nl):
        if len(nl) < len(ol):
            return False
        r = True
        for x, y in zip(ol, nl):
            r = b_and(r, deep_eq(x.v, y.v))
        return r

    def maps_prefix(om, nm):
        r = True
        for k, c in deref(om).entries:
            alts = []
            for k2, c2 in deref(nm).entries:
                ke = deep_eq(k, k2)
                if ke is False:
                    continue
                alts.append(b_and(ke, list_prefix(deref(c.v).elems, deref(c2.v).elems)))
            one = False
            for a_ in alts:
                one = b_or(one, a_)
            r = b_and(r, one)
        return r

    res = maps_prefix(w.field(old_room, 'Room', 'admins').v, w.field(new_room, 'Room', 'admins').v)
    oa, na = deref(w.field(old_room, 'Room', 'authorisations').v), deref(w.field(new_room, 'Room', 'authorisations').v)
    for k, c in oa.entries:
        alts = False
        for k2, c2 in na.entries:
            ke = deep_eq(k, k2)
            if ke is False:
                continue
            g = ke
            for fld in ('users', 'rights', 'user_admins'):
                g = b_and(g, maps_prefix(w.field(c.v, 'Authorisation', fld).v, w.field(c2.v, 'Authorisation', fld).v))
            alts = b_or(alts, g)
        res = b_and(res, alts)
    return res


def scenario_room(ctx, m, kind, info):
    c = Concretizer(m)
    sh = info['shape']
    added = info['added']
    sc = dict(kind='room_mutation', property='C01', rooms=[c.room(ev) for ev in info['rooms']], caller=c.atom(info['caller'], 'key'), date=c.int(info['date']),
              mode=sh['mode'], group=sh['group'],
              admins=[[c.atom(k), c.int(d), c.bool(e)] for k, d, e in added['admins']],
              groups={k.decode(): dict(rights=[[c.atom(en), c.int(d), c.bool(ms), c.bool(ma)] for en, d, ms, ma in g['rights']],
                                       users=[[c.atom(k2), c.int(d), c.bool(e)] for k2, d, e in g['users']],
                                       user_admins=[[c.atom(k2), c.int(d), c.bool(e)] for k2, d, e in g['user_admins']]) for k, g in added['groups'].items()})
    if kind == 'sample':
        return sc
    if kind == 'panic':
        sc['expect'] = dict(result='panic')
        return sc
    sc['expect'] = dict(result='Ok')
    sc['what'] = 'validate_room_mutation accepts a %s although: %s' % (sh['mode'], info.get('problem', kind))
    sc['signature'] = 'room-mutation:%s:%s' % (sh['mode'], info.get('problem', kind))
    return sc


# =============================================================================================

def shapes(tier):
    return mutation_shapes(tier) + deletion_shapes(tier) + room_shapes(tier)


def explore(ctx, shape, tier, report):
    return {'mutation': explore_mutation, 'deletion': explore_deletion, 'room': explore_room}[shape['part']](ctx, shape, tier, report)


def scenario(ctx, m, kind, info):
    return {'mutation': scenario_mutation, 'deletion': scenario_deletion, 'room': scenario_room}[info['part']](ctx, m, kind, info)
