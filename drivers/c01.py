"""C01 — local writes are applied only with the room's rights at that time.
Entry points executed from MIR: RoomAuthorisations::validate_entity_mutation (and everything below it)."""
import itertools
import z3
from mirsym.interp import *
from mirsym.values import *
from mirsym.models import deref
from .lib import *

KEYS = [S(lit=b'K1'.ljust(33, b'k')), S(lit=b'K2'.ljust(33, b'k')), S(lit=b'K3'.ljust(33, b'k'))]
ROOMS = [S(lit=b'R1'.ljust(16, b'r')), S(lit=b'R2'.ljust(16, b'r')), S(lit=b'R3'.ljust(16, b'r'))]   # R3 is never registered
ENTS = [S(lit='E'), S(lit='F'), S(lit='*')]

SPECS = {
    'quick': [
        (dict(admins=1, groups=[dict(users=2, user_admins=1, rights=2)]),
         dict(admins=1, groups=[dict(users=1, user_admins=0, rights=1)])),
    ],
    'thorough': [
        (dict(admins=2, groups=[dict(users=2, user_admins=1, rights=3)]),
         dict(admins=1, groups=[dict(users=2, user_admins=1, rights=2)])),
        (dict(admins=1, groups=[dict(users=2, user_admins=0, rights=2), dict(users=1, user_admins=1, rights=2)]),
         dict(admins=1, groups=[dict(users=1, user_admins=0, rights=1), dict(users=1, user_admins=0, rights=1)])),
        (dict(admins=3, groups=[dict(users=3, user_admins=0, rights=1)]),
         dict(admins=0, groups=[dict(users=1, user_admins=0, rights=3)])),
    ],
}

# node shape: (has_room, has_node, old) ; old: 0 = none, 1 = old row without room, 2 = old row in a room
NODE_SHAPES = [(r, n, o) for r in (0, 1) for n in (0, 1) for o in (0, 1, 2)
               if not (n == 0 and o == 0)       # a reference always has an old row
               and not (o == 2 and r == 0)]     # a row in a room keeps a room (create_node_to_mutate)


def tree_shapes(tier):
    out = []
    for root in NODE_SHAPES:
        out.append((root, 0))
        for child in NODE_SHAPES:
            out.append((root, 0, child, 0))
    if tier == 'thorough':
        for root in NODE_SHAPES:
            out.append((root, 1))
            for child in NODE_SHAPES:
                out.append((root, 1, child, 1))
                for gc in NODE_SHAPES:
                    out.append((root, 0, child, 0, gc, 0))
    return out


def shapes(tier):
    return [dict(spec=i, tree=t) for i in range(len(SPECS[tier])) for t in tree_shapes(tier)]


class Built:
    pass


def build_insert(w, tree, level, date, caller, obligations, nodes_out, root_entity=None):
    ctx = w.ctx
    has_room, has_node, old = tree[0]
    ndel = tree[1]
    tag = 'n%d' % level
    nid = w.atom(tag + '_id', None, 'uid', n=16)
    if root_entity is None:
        entity = w.atom(tag + '_entity', ENTS[:2] + [S(lit='sys.Authorisation'), S(lit='sys.UserAuth'), S(lit='sys.EntityRight')], 'str')
    else:
        entity = root_entity
    room = w.atom(tag + '_room', ROOMS, 'uid', n=16) if has_room else None
    node = None
    size = None
    if has_node:
        node = w.node(id=nid, room_id=room, cdate=w.i64(tag + '_cdate'), mdate=date, entity=w.atom(tag + '_short', None, 'str'),
                      author=w.atom(tag + '_nodeauthor', KEYS, 'bytes', n=33), json=w.atom(tag + '_json', None, 'str'))
        size = w.u64(tag + '_size')
        ctx.node_size_list.append((node, size))
    old_node = None
    old_author = old_room = None
    if old:
        old_author = w.atom(tag + '_oldauthor', KEYS, 'bytes', n=33)
        old_room = w.atom(tag + '_oldroom', ROOMS, 'uid', n=16) if old == 2 else None
        old_node = w.node(id=nid, room_id=old_room, cdate=w.i64(tag + '_ocdate'), mdate=w.i64(tag + '_omdate'),
                          entity=w.atom(tag + '_oshort', None, 'str'), author=old_author)
    ntm = w.struct('NodeToMutate', id=nid, date=date, entity=entity, room_id=w.opt(room), node=w.opt(node),
                   node_fts_str=none(), old_node=w.opt(old_node), old_fts_str=none(), enable_full_text=True)
    dels = []
    for i in range(ndel):
        dels.append(w.edge(src=nid, src_entity=w.atom('%s_del%d_se' % (tag, i), None, 'str'), label=w.atom('%s_del%d_l' % (tag, i), None, 'str'),
                           dest=w.atom('%s_del%d_dest' % (tag, i), None, 'uid', n=16), cdate=w.i64('%s_del%d_cdate' % (tag, i)),
                           author=w.atom('%s_del%d_author' % (tag, i), KEYS, 'bytes', n=33)))
    subs = MapV()
    rest = tree[2:]
    if rest:
        child = build_insert(w, rest, level + 1, date, caller, obligations, nodes_out)
        subs.entries.append([S(lit='child'), Cell(VecV([Cell(child)]))])
    ie = w.struct('InsertEntity', name=S(lit='x'), node_to_mutate=ntm, edge_deletions=VecV([Cell(d) for d in dels]),
                  edge_deletions_log=VecV(), edge_insertions=VecV(), sub_nodes=subs)
    info = Built()
    info.level, info.entity, info.room, info.has_node, info.old_author, info.old_room, info.size, info.ndel = level, entity, room, has_node, old_author, old_room, size, ndel
    info.old = old
    info.ie = ie
    nodes_out.append(info)
    return ie


def row_obligation(info, rooms_ev, caller, date):
    """what the property requires for one row of the tree when the whole mutation is accepted"""
    if not info.has_node:
        return z3.BoolVal(True)       # nothing is written for this row
    sys_ent = zor(*[seq(info.entity, S(lit=x)) for x in SYS_ENTS])
    if info.room is None:
        return znot(sys_ent)          # rows outside any room are not governed by a room
    if info.old_author is None:
        which_self = z3.BoolVal(True)
    else:
        which_self = seq(info.old_author, caller)
    need = []
    for rid in [info.room] + ([info.old_room] if info.old_room is not None else []):
        g_self = granted_in(rooms_ev, rid, caller, info.entity, date, 'self')
        g_all = granted_in(rooms_ev, rid, caller, info.entity, date, 'all')
        need.append(z3.If(which_self, g_self, g_all))
    return zand(znot(sys_ent), *need)


def explore(ctx, shape, tier, report):
    spec1, spec2 = SPECS[tier][shape['spec']]
    tree = shape['tree']
    vem = ctx.method('RoomAuthorisations', 'validate_entity_mutation')

    def path(ctx):
        w = World(ctx)
        ctx.node_size_list = []
        caller = w.atom('caller', KEYS, 'bytes', n=33)
        r1, ev1 = build_room(w, ROOMS[0], spec1, KEYS, ENTS, 'r1')
        r2, ev2 = build_room(w, ROOMS[1], spec2, KEYS, ENTS, 'r2')
        rooms_ev = [ev1, ev2]
        rooms = MapV([[ROOMS[0], r1], [ROOMS[1], r2]])
        max_size = w.u64('max_node_size')
        ra = w.struct('RoomAuthorisations', signing_key=w.signing_key(caller), rooms=rooms, max_node_size=max_size)
        date = w.i64('op_date')
        nodes = []
        root_entity = w.atom('n0_entity', None, 'str')
        for x in SYS_ENTS:
            ctx.add(znot(seq(root_entity, S(lit=x))))
        ie = build_insert(w, tree, 0, date, caller, None, nodes, root_entity=root_entity)
        iec = Cell(ie)
        try:
            res = ctx.call(vem, [Ref(Cell(ra)), Ref(iec, True), Ref(Cell(caller))])
        except Panic as p:
            report.panic(ctx, w, p, dict(rooms=rooms_ev, caller=caller, date=date, nodes=nodes, max_size=max_size))
            return
        accepted = res.variant == 0
        report.path(accepted)
        if accepted:
            prop = zand(*[row_obligation(n, rooms_ev, caller, date) for n in nodes])
            # size limit: an accepted tree contains no written row above the limit
            size_ok = zand(*[z3.ULE(n.size.z(), max_size.z()) for n in nodes if n.has_node])
            m = ctx.check_sat(znot(zand(prop, size_ok)))
            if m is not None:
                # which row fails?
                culprit = None
                for n in nodes:
                    if z3.is_false(m.eval(zb(row_obligation(n, rooms_ev, caller, date)), model_completion=True)):
                        culprit = n
                        break
                report.violation(ctx, m, 'accepted-without-right', dict(rooms=rooms_ev, caller=caller, date=date, nodes=nodes, max_size=max_size, culprit=culprit))
            else:
                report.witness('accepted')
        else:
            report.witness('rejected')

    ctx.explore(path)


REQUIRED_WITNESSES = ['accepted', 'rejected']
BOUNDS = {
    'quick': 'rooms R1,R2 registered + R3 unknown; R1: 1 admin entry, 1 group (2 user, 1 user-admin, 2 right entries); R2: 1 admin, 1 group (1 user, 1 right); '
             'keys in {K1,K2,K3}; right entities in {E,F,*}; mutation trees of depth <= 2 (root + one nested child), every combination of '
             'room present/absent, row written/reference, old row none/roomless/in a room; dates, flags, ids, sizes unconstrained 64-bit / boolean',
    'thorough': 'as quick with 3 room configurations (up to 3 entries per list, 2 groups per room), depth <= 3, 0-1 reference deletions per row',
}
ASSUMPTIONS = [
    'InsertEntity shapes obey what create_node_to_mutate builds: node.room_id = room_id, node.mdate = date, old row id = id, '
    'a row that was in a room keeps a room id, a reference (node = None) has an old row',
    'the root entity is not a sys.* entity (room mutations are checked by the room-mutation driver)',
    'bincode::serialized_size(node) is an arbitrary u64 per node',
]


def _failed_roles(m, n, rooms_ev, caller, date):
    roles = []
    ev = lambda t: z3.is_true(m.eval(zb(t), model_completion=True))
    if not n.has_node:
        return roles
    sys_ent = zor(*[seq(n.entity, S(lit=x)) for x in SYS_ENTS])
    if ev(sys_ent):
        roles.append('authorisation-entity')
        return roles
    if n.room is None:
        return roles
    which_self = z3.BoolVal(True) if n.old_author is None else seq(n.old_author, caller)
    w = 'self' if ev(which_self) else 'all'
    if not ev(granted_in(rooms_ev, n.room, caller, n.entity, date, w)):
        roles.append('destination-room')
    if n.old_room is not None and not ev(granted_in(rooms_ev, n.old_room, caller, n.entity, date, w)):
        roles.append('departing-room')
    return roles


def scenario(ctx, m, kind, info):
    c = Concretizer(m)
    rooms_ev, caller, date, nodes = info['rooms'], info['caller'], info['date'], info['nodes']
    by_level = {n.level: n for n in nodes}
    big = []

    def enc(level):
        n = by_level.get(level)
        if n is None:
            return None
        ie = n.ie
        d = dict(id=c.atom(deref(World(ctx).field(World(ctx).field(ie, 'InsertEntity', 'node_to_mutate').v, 'NodeToMutate', 'id').v), 'uid'),
                 date=c.int(date), entity=c.atom(n.entity, 'ent'), room=None if n.room is None else c.atom(n.room, 'room'))
        if n.has_node:
            over = bool(z3.is_true(m.eval(z3.UGT(n.size.z(), info['max_size'].z()), model_completion=True)))
            d['node'] = dict(room=d['room'], cdate=0, mdate=c.int(date), short='9.9', author=c.atom(caller, 'key'),
                             json=('{"pad":"%s"}' % ('x' * 600)) if over else '{}')
            if over:
                big.append(level)
        else:
            d['node'] = None
        if n.old:
            d['old'] = dict(room=None if n.old_room is None else c.atom(n.old_room, 'room'), cdate=0, mdate=0, short='9.9',
                            author=c.atom(n.old_author, 'key'))
        else:
            d['old'] = None
        d['dels'] = [dict(src=d['id'], dest='dest%d' % i, src_entity='9.9', label='l', cdate=0, author=c.atom(caller, 'key')) for i in range(n.ndel)]
        child = enc(level + 1)
        d['subs'] = {'child': [child]} if child is not None else {}
        return d

    tree = enc(0)
    sc = dict(kind='entity_mutation', property='C01', rooms=[c.room(ev) for ev in rooms_ev], caller=c.atom(caller, 'key'),
              max_node_size=400 if big else 1 << 40, tree=tree)
    if kind == 'panic':
        sc['expect'] = dict(result='panic')
        return sc
    culprit = info.get('culprit')
    roles = _failed_roles(m, culprit, rooms_ev, caller, date) if culprit is not None else []
    under_ref = culprit is not None and any((not by_level[l].has_node) for l in range(culprit.level))
    if not roles and big:
        roles = ['oversized-row']
    sc['expect'] = dict(result='Ok')
    sc['what'] = 'validate_entity_mutation accepts a tree whose row at level %s lacks: %s%s' % (
        culprit.level if culprit else '?', ','.join(roles), ' (below an unchanged reference)' if under_ref else '')
    sc['signature'] = 'accepted-without-right:%s%s' % ('+'.join(roles) or 'unknown', ':under-reference' if under_ref else '')
    return sc
