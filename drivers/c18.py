"""C18 — every committed change is announced (room-definition kernel only).
When the writer reports that a synchronised room definition has been stored, the RoomNodeWrite arm of
AuthorisationService::process_message must register the room it stored, announce exactly that room (a room-modified event
carrying the definition parsed from what was written) and acknowledge; when the write failed it must do none of the three.
The arm is executed from MIR (coroutine run through its awaits) on a symbolic room definition."""
import z3
from mirsym.interp import *
from mirsym.values import *
from mirsym.models import deref, SegmentEnd
from .lib import *
from .c01 import KEYS
from .c10 import ADMIN, ROOM_ID, build_room_node, make_events
from .c15 import deep_eq

REQUIRED_WITNESSES = ['announced', 'not-announced']
BOUNDS = {
    'quick': 'one synchronised room definition (1 admin, 1 group with 1-2 users, 0-1 user admins, 1-2 rights; dates and flags symbolic), write outcome Ok / Err, '
             'room already registered or not',
    'thorough': 'same with two-entry histories in every list',
}
ASSUMPTIONS = [
    'only the room-definition half of the property, and only its last step: from the writer\'s report to the event. That the writer reports every committed definition, '
    'the data-changed events (built from the SQL recomputation pass), local room mutations (RoomMutationWrite re-runs validate_mutation on a MutationQuery) and the '
    'broadcast channel behind EventService::notify are outside',
    'EventService::notify and the oneshot reply complete at once',
]
HISTORIES = {
    'quick': [dict(admins=['K1'], users=['K2'], user_admins=[], rights=['E']), dict(admins=['K1'], users=['K2', 'K3'], user_admins=['K3'], rights=['E', '*'])],
    'thorough': [dict(admins=['K1', 'K1'], users=['K2', 'K2'], user_admins=['K3', 'K3'], rights=['E', 'E'])],
}


def shapes(tier):
    out = []
    for i in range(len(HISTORIES['quick']) + (len(HISTORIES['thorough']) if tier == 'thorough' else 0)):
        for res in ('Ok', 'Err'):
            for known in (0, 1):
                out.append(dict(part='room_node_write', history=i, result=res, known=known))
    return out


def explore(ctx, shape, tier, report):
    pm = ctx.method('AuthorisationService', 'process_message')
    parse = ctx.method('RoomNode', 'parse')
    hist = (HISTORIES['quick'] + HISTORIES['thorough'])[shape['history']]
    events = []
    hooks = {}

    def notify(ctx_, args):
        events.append(('notify', args[1]))
        return Opaque('ready-future', UNIT)
    hooks[ctx.method('EventService', 'notify').name] = notify
    saved = ctx.models.get('Sender::send')

    def reply_send(ctx_, args, ci, dt):
        events.append(('reply', args[1]))
        return ok(UNIT)

    def path(ctx):
        w = World(ctx)
        del events[:]
        ev = make_events(w, hist)
        rn = build_room_node(ctx, w, ev)
        expected = ctx.exec_fn(parse, [Ref(Cell(clone_val(rn)))])
        if expected.variant != 0:
            raise PathEnd()      # only definitions that parse are written
        expected = expected.fields[0].v
        rooms = MapV()
        if shape['known']:
            rooms.entries.append([ROOM_ID, Cell(Opaque('previous-definition'))])
        ra = Cell(w.struct('RoomAuthorisations', signing_key=w.signing_key(ADMIN), rooms=rooms, max_node_size=w.u64('max')))
        query = w.struct('RoomNodeWriteQuery', room=rn, reply=Opaque('oneshot-sender'))
        res = ok(UNIT) if shape['result'] == 'Ok' else err(Opaque('Error::DatabaseWrite'))
        variants = [v[0] for v in w.src.enum_variants('AuthorisationMessage')]
        msg = Enum('AuthorisationMessage', variants.index('RoomNodeWrite'), 'RoomNodeWrite', [Cell(res), Cell(query)])
        info = dict(shape=shape)
        try:
            co = ctx.exec_fn(pm, [msg, Ref(ra, True), Ref(Cell(Opaque('database-writer'))), Ref(Cell(Opaque('event-service'))), Ref(Cell(Opaque('self-sender')))])
            r = ctx.poll(co)
        except Panic as p:
            report.panic(ctx, w, p, info)
            return
        if not (isinstance(r, Enum) and r.vname == 'Ready'):
            raise Inconclusive('the RoomNodeWrite arm did not complete in one poll')
        notes = [e[1] for e in events if e[0] == 'notify']
        replies = [e[1] for e in events if e[0] == 'reply']
        announced = [n for n in notes if isinstance(n, Enum) and n.vname == 'RoomModified']
        report.path(bool(announced))
        report.witness('announced' if announced else 'not-announced')
        info['ev'] = ev
        info['observed'] = dict(announced=len(announced), acknowledged=(replies[0].vname if len(replies) == 1 and isinstance(replies[0], Enum) else 'none'))
        # replayable instances: the native builder lays the entries out in the order given, so the dates of a list must ascend
        asc = []
        ge0 = ev.groups[0]
        for lst in ([d for (_, d, _) in ev.admins], [d for (_, d, _) in ge0.users], [d for (_, d, _) in ge0.user_admins], [d for (_, d, _, _) in ge0.rights]):
            asc += [a.z() < b.z() for a, b in zip(lst, lst[1:])]
        asc = zand(*asc)
        info['asc'] = asc
        if report.want_sample(bool(announced)):
            ms = ctx.check_sat(asc)
            if ms is not None:
                report.sample(scenario(ctx, ms, 'sample', info))
        registered = [c.v for k, c in deref(w.field(ra.v, 'RoomAuthorisations', 'rooms').v).entries if s_eq(k, ROOM_ID) is True]
        problems = []
        if shape['result'] == 'Ok':
            if len(announced) != 1:
                problems.append('a stored room definition is announced %d times' % len(announced))
            elif deep_eq(announced[0].fields[0].v, expected) is not True and z3.is_false(z3.simplify(zb(deep_eq(announced[0].fields[0].v, expected)))):
                problems.append('the announced room is not the definition that was stored')
            if len(registered) != 1 or isinstance(registered[0], Opaque):
                problems.append('the stored definition is not the one registered for authorisation')
            elif deep_eq(registered[0], expected) is False:
                problems.append('the registered room is not the definition that was stored')
            if len(replies) != 1 or not (isinstance(replies[0], Enum) and replies[0].vname == 'Ok'):
                problems.append('the write is not acknowledged')
        else:
            if announced:
                problems.append('a room definition whose write failed is announced')
            if any(not isinstance(x, Opaque) for x in registered) or (not shape['known'] and registered):
                problems.append('a room definition whose write failed is registered')
            if len(replies) != 1 or not (isinstance(replies[0], Enum) and replies[0].vname == 'Err'):
                problems.append('a failed write is not reported')
        if problems:
            info['problem'] = problems[0]
            report.violation(ctx, ctx.check_sat(asc) or ctx.check_sat(True), 'room-event', info)
            return
        if shape['result'] == 'Ok':
            c = deep_eq(announced[0].fields[0].v, expected)
            m = ctx.check_sat(zand(znot(zb(c)), asc)) or ctx.check_sat(znot(zb(c)))
            if m is not None:
                info['problem'] = 'the announced room is not the definition that was stored'
                report.violation(ctx, m, 'room-event', info)

    ctx.call_hooks.update(hooks)
    ctx.models['Sender::send'] = reply_send
    try:
        ctx.explore(path)
    finally:
        for k in hooks:
            ctx.call_hooks.pop(k, None)
        if saved is None:
            ctx.models.pop('Sender::send', None)
        else:
            ctx.models['Sender::send'] = saved


def scenario(ctx, m, kind, info):
    c = Concretizer(m)
    sc = dict(kind='room_node_write_event', property='C18', result=info['shape']['result'], known=bool(info['shape']['known']), room=c.room(info['ev']), admin=ADMIN.lit.decode())
    if kind == 'panic':
        sc['expect'] = dict(result='panic')
        return sc
    # the native run must show what the model observed (how often the room is announced, how the write is acknowledged)
    sc['expect'] = dict(info.get('observed', {}))
    if kind == 'sample':
        return sc
    sc['what'] = 'RoomNodeWrite: %s' % info.get('problem')
    sc['signature'] = 'room-event:%s' % info.get('problem')
    return sc
