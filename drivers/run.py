"""Check runner: refresh the MIR dump of /repo's current tree, run the property's driver over all
shapes on a process pool, replay every counterexample natively, write evidence, set the exit code.

exit 0  property held on everything explored (known findings printed as KNOWN-FINDING)
exit 1  VIOLATION property=<id> replay=<path>   (reproduced on the real code)
exit 2  inconclusive (unsupported MIR, solver unknown/timeout, non-reproducing model, broken witness)"""
import argparse
import collections
import hashlib
import importlib
import json
import multiprocessing
import os
import random
import subprocess
import sys
import time
import traceback

VERIF = os.path.dirname(os.path.dirname(os.path.abspath(__file__)))
REPO = os.environ.get('VERIF_REPO', '/repo')
VCACHE = os.environ.get('VCACHE', '/var/cache/discret-verif')
sys.path.insert(0, VERIF)

from mirsym import mirgen   # noqa: E402


class Report:
    def __init__(self):
        self.accepted = 0
        self.rejected = 0
        self.witnesses = collections.Counter()
        self.violations = []     # dict(kind, signature, scenario)
        self.panics = []
        self.samples = []
        self.queries = 0
        self.mod = None
        self.seed = 0
        self.path_no = 0

    def path(self, accepted):
        if accepted:
            self.accepted += 1
        else:
            self.rejected += 1

    def witness(self, name):
        self.witnesses[name] += 1

    def want_sample(self, accepted):
        """a seed-dependent ~2% of the paths, plus the first accepted and first rejected of each shape"""
        self.path_no += 1
        first = (accepted and self.accepted == 1) or (not accepted and self.rejected == 1)
        return first or ((self.path_no * 2654435761 + self.seed * 40503) % 53 == 0)

    def sample(self, s):
        self.samples.append(s)

    def violation(self, ctx, model, kind, info):
        sc = self.mod.scenario(ctx, model, kind, info)
        self.violations.append(sc)

    def panic(self, ctx, w, p, info):
        m = ctx.check_sat(True)
        sc = self.mod.scenario(ctx, m, 'panic', info) if m is not None and hasattr(self.mod, 'scenario') else dict(kind='panic')
        sc['panic'] = dict(msg=p.msg, where=p.where)
        sc['signature'] = 'panic:' + p.msg + '@' + p.where.rsplit('::', 1)[-1]
        self.panics.append(sc)


_CTX = {}


def _worker(job):
    modname, tier, shape, mir_path, timeout_ms, seed = job
    from mirsym.interp import load, Unsupported, Inconclusive
    t0 = time.time()
    key = (mir_path, timeout_ms)
    ctx = _CTX.get(key)
    if ctx is None:
        ctx = load(mir_path, REPO, timeout_ms)
        _CTX[key] = ctx
    mod = importlib.import_module('drivers.' + modname)
    rep = Report()
    rep.mod = mod
    rep.seed = seed
    from mirsym.interp import Stats
    ctx.stats = Stats()
    ctx.used_models = set()
    ctx.assumptions = set()
    err = None
    try:
        mod.explore(ctx, shape, tier, rep)
    except (Unsupported, Inconclusive) as e:
        err = '%s: %s' % (type(e).__name__, e)
    except Exception as e:   # encoder bug: never a pass
        err = 'internal error: %s\n%s' % (e, traceback.format_exc())
    return dict(shape=shape, err=err, stats=ctx.stats.as_dict(), functions=dict(ctx.stats.functions),
                models=sorted(ctx.used_models), assumptions=sorted(ctx.assumptions),
                accepted=rep.accepted, rejected=rep.rejected, witnesses=dict(rep.witnesses),
                violations=rep.violations, panics=rep.panics, samples=rep.samples, wall=time.time() - t0)


def load_known(prop):
    p = os.path.join(VERIF, 'KNOWN_FINDINGS.json')
    if not os.path.exists(p):
        return []
    with open(p) as f:
        data = json.load(f)
    return [k for k in data.get('known', []) if k['property'] == prop]


def main():
    ap = argparse.ArgumentParser()
    ap.add_argument('prop')
    ap.add_argument('--tier', default=os.environ.get('VERIF_TIER', 'quick'))
    ap.add_argument('--procs', type=int, default=int(os.environ.get('VERIF_PROCS', '16')))
    ap.add_argument('--only', default=None, help='run only shapes whose repr contains this text')
    ap.add_argument('--no-replay', action='store_true')
    args = ap.parse_args()
    prop = args.prop.upper()
    tier = args.tier
    seed = int(os.environ.get('VERIF_SEED', '0'))
    t0 = time.time()
    mod = importlib.import_module('drivers.' + prop.lower())
    evidence_path = os.path.join(VERIF, 'evidence', prop + '.json')
    try:
        os.remove(evidence_path)
    except OSError:
        pass
    if hasattr(mod, 'main'):
        # driver with its own orchestration (several engines)
        rc = mod.main(tier, seed, args)
        sys.exit(rc)
    results, tree_hash = run_mirsym(prop, mod, tier, seed, args)
    rc = finish(prop, tier, seed, mod, results, t0, tree_hash, no_replay=args.no_replay)
    sys.exit(rc)


def run_mirsym(prop, mod, tier, seed, args, shapes=None, modname=None):
    try:
        mir_path, tree_hash = mirgen.ensure_mir(REPO, VCACHE)
    except Exception as e:
        print('INCONCLUSIVE: cannot produce MIR of the current tree: %s' % e)
        sys.exit(2)
    timeout_ms = 60000 if tier == 'quick' else 600000
    if shapes is None:
        shapes = mod.shapes(tier)
    if getattr(args, 'only', None):
        shapes = [s for s in shapes if args.only in repr(s)]
    random.Random(seed).shuffle(shapes)
    jobs = [(modname or prop.lower(), tier, s, mir_path, timeout_ms, seed) for s in shapes]
    results = []
    procs = getattr(args, 'procs', 16)
    if procs <= 1:
        for j in jobs:
            results.append(_worker(j))
    else:
        with multiprocessing.Pool(procs) as pool:
            for r in pool.imap_unordered(_worker, jobs, chunksize=1):
                results.append(r)
    return results, tree_hash


def finish(prop, tier, seed, mod, results, t0, tree_hash, no_replay=False, extra=None):
    from drivers import replay
    errs = [r for r in results if r['err']]
    stats = collections.Counter()
    functions = {}
    models = set()
    assumptions = set()
    witnesses = collections.Counter()
    samples = []
    violations = []
    panics = []
    for r in results:
        for k, v in r['stats'].items():
            stats[k] += v
        functions.update(r['functions'])
        models.update(r['models'])
        assumptions.update(r['assumptions'])
        witnesses.update(r['witnesses'])
        stats['accepted_paths'] += r['accepted']
        stats['rejected_paths'] += r['rejected']
        samples.extend(x for x in r['samples'] if not x.get('skip_native'))
        violations.extend(r['violations'])
        panics.extend(r['panics'])
    # encoder validation: concrete instances of explored paths must behave the same on the real code
    validated = 0
    mismatches = []
    if samples and not no_replay and all('expect' in x for x in samples):
        try:
            got = replay.run_native(samples)
            for sc, g in zip(samples, got):
                if replay.matches(sc['expect'], g):
                    validated += 1
                else:
                    mismatches.append(dict(scenario=sc, real=g))
        except Exception as e:
            mismatches.append(dict(error=str(e)[:1500]))
    # dedupe by structural signature
    by_sig = collections.OrderedDict()
    violations.sort(key=lambda v: 0 if v.get('preferred') else 1)
    for v in violations + (panics if getattr(mod, 'PANICS_ARE_VIOLATIONS', True) else []) + list((extra or {}).get('violations', [])):
        by_sig.setdefault(v['signature'], v)
    known = load_known(prop)
    out_lines = []
    confirmed = []
    known_hits = []
    nonrepro = []
    os.makedirs(os.path.join(VERIF, 'replays', prop), exist_ok=True)
    n = 0
    for sig, sc in by_sig.items():
        n += 1
        path = os.path.join(VERIF, 'replays', prop, '%d.json' % n)
        with open(path, 'w') as f:
            json.dump(sc, f, indent=1, sort_keys=True)
        if no_replay:
            confirmed.append((sig, path, None))
            continue
        ok, detail = replay.replay(sc, path)
        sc['replay_detail'] = detail
        with open(path, 'w') as f:
            json.dump(sc, f, indent=1, sort_keys=True)
        if ok is None:
            nonrepro.append((sig, path, 'replay failed to run: ' + str(detail)))
        elif ok:
            kf = [k for k in known if k['signature'] == sig]
            if kf:
                known_hits.append((sig, path, kf[0]))
            else:
                confirmed.append((sig, path, detail))
        else:
            nonrepro.append((sig, path, detail))
    need = getattr(mod, 'REQUIRED_WITNESSES', [])
    missing = [wn for wn in need if witnesses.get(wn, 0) == 0]
    if not mismatches:
        # a mismatch file left by an earlier run says nothing about this one
        try:
            os.remove(os.path.join(VERIF, 'replays', prop, 'encoder-mismatch.json'))
        except OSError:
            pass
    for sig, path, kf in known_hits:
        print('KNOWN-FINDING: property=%s %s' % (prop, kf.get('what', sig)))
    rc = 0
    for sig, path, detail in confirmed:
        print('VIOLATION property=%s replay=%s' % (prop, path))
        print('   signature: %s' % sig)
        rc = 1
    if rc == 0:
        if errs:
            for r in errs[:5]:
                print('INCONCLUSIVE shape=%r: %s' % (r['shape'], r['err']))
            rc = 2
        for msg in (extra or {}).get('inconclusive', []):
            print('INCONCLUSIVE: %s' % msg)
            rc = 2
        if nonrepro:
            for sig, path, detail in nonrepro[:5]:
                print('INCONCLUSIVE: model does not reproduce on the real code (%s): %s' % (sig, path))
            rc = 2
        if missing:
            print('INCONCLUSIVE: vacuity witnesses not satisfiable: %s' % missing)
            rc = 2
        if mismatches:
            os.makedirs(os.path.join(VERIF, 'replays', prop), exist_ok=True)
            mp = os.path.join(VERIF, 'replays', prop, 'encoder-mismatch.json')
            with open(mp, 'w') as f:
                json.dump(mismatches[:20], f, indent=1, sort_keys=True)
            print('INCONCLUSIVE: encoder validation failed on %d sampled paths (real code and symbolic path disagree): %s' % (len(mismatches), mp))
            rc = 2
    wall = time.time() - t0
    slow = sorted(results, key=lambda r: -r['wall'])[:4]
    if os.environ.get('VERIF_VERBOSE'):
        for r in slow:
            print('  slow shape %.1fs paths=%d %r' % (r['wall'], r['stats']['paths'], r['shape']))
    if not samples:
        samples = [dict(note='no sample recorded')]
    ev = dict(
        property_id=prop, tier=tier, seed=seed, level='model_checking',
        coverage=dict(
            states=int(stats['paths']), transitions=int(stats['terminators']),
            traces_validated_against_impl=validated + len(confirmed) + len(known_hits) + (extra or {}).get('validated', 0),
            encoder_validation=dict(sampled_paths=len(samples), agreed=validated, disagreed=len(mismatches)),
            samples=samples[:4],
            shapes=len(results), shapes_inconclusive=len(errs),
            accepted_paths=int(stats['accepted_paths']), rejected_paths=int(stats['rejected_paths']),
            queries=dict(sat=int(stats['sat']), unsat=int(stats['unsat']), unknown=int(stats['unknown']),
                         feasibility_checks=int(stats['solver_calls'])),
            solver_s=round(stats['solver_s'], 2), merged_calls=int(stats['merged_calls']),
            witnesses=dict(witnesses), witnesses_required=need,
            functions_encoded=[dict(name=k, body_sha1=v) for k, v in sorted(functions.items())],
            std_models=sorted(models),
            bounds=getattr(mod, 'BOUNDS', {}).get(tier, ''),
            tree_hash=tree_hash,
            known_findings=[dict(signature=s, what=k.get('what')) for s, p, k in known_hits],
            nonreproducing_models=[dict(signature=s, path=p) for s, p, d in nonrepro],
            engine='mirsym (MIR symbolic execution, z3 %s)' % __import__('z3').get_version_string(),
        ),
        assumptions=sorted(assumptions) + getattr(mod, 'ASSUMPTIONS', []),
        wall_s=round(wall, 2), violations=len(confirmed),
    )
    if extra:
        ev['coverage'].update(extra.get('coverage', {}))
    with open(os.path.join(VERIF, 'evidence', prop + '.json'), 'w') as f:
        json.dump(ev, f, indent=1, sort_keys=True)
    print('%s %s: shapes=%d paths=%d sat=%d unsat=%d violations=%d known=%d inconclusive=%d wall=%.1fs' % (
        prop, tier, len(results), stats['paths'], stats['sat'], stats['unsat'], len(confirmed), len(known_hits), len(errs) + len(nonrepro), wall))
    return rc


if __name__ == '__main__':
    main()
