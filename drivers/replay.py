"""E3: native replay of scenarios against the REAL crate (built from /repo's current tree with
`--cfg discret_verif`).  A model is reported as a violation only if the real code reproduces it."""
import fcntl
import json
import os
import subprocess
import time

VERIF = os.path.dirname(os.path.dirname(os.path.abspath(__file__)))
REPO = os.environ.get('VERIF_REPO', '/repo')
VCACHE = os.environ.get('VCACHE', '/var/cache/discret-verif')

_BIN = {}


def native_binary(release=False):
    """build (incrementally) the lib test binary of the current tree with hooks on; returns its path"""
    key = 'release' if release else 'dev'
    if key in _BIN:
        return _BIN[key]
    os.makedirs(VCACHE, exist_ok=True)
    lock = open(os.path.join(VCACHE, '.native.lock'), 'w')
    fcntl.flock(lock, fcntl.LOCK_EX)
    try:
        env = dict(os.environ)
        env['RUSTFLAGS'] = '--cfg discret_verif'
        env['CARGO_TARGET_DIR'] = os.path.join(VCACHE, 'target-native')
        env['CARGO_NET_OFFLINE'] = 'true'
        cmd = ['cargo', 'test', '--offline', '--lib', '--no-run', '--message-format=json']
        if release:
            cmd.append('--release')
        t0 = time.time()
        p = subprocess.run(cmd, cwd=REPO, env=env, stdout=subprocess.PIPE, stderr=subprocess.PIPE, text=True)
        if p.returncode != 0:
            raise RuntimeError('native build failed: ' + p.stderr[-3000:])
        exe = None
        for line in p.stdout.splitlines():
            if '"executable"' in line:
                try:
                    d = json.loads(line)
                except ValueError:
                    continue
                if d.get('executable') and d.get('target', {}).get('name') == 'discret' and d.get('profile', {}).get('test'):
                    exe = d['executable']
        if exe is None:
            raise RuntimeError('native test binary not found in cargo output')
        _BIN[key] = exe
        return exe
    finally:
        fcntl.flock(lock, fcntl.LOCK_UN)
        lock.close()


def run_native(scenarios, test='verif_replay', release=False, timeout=300):
    """run a list of scenarios through the real code; returns list of result dicts"""
    exe = native_binary(release)
    tmp = os.path.join(VCACHE, 'scenario-%d-%d.json' % (os.getpid(), int(time.time() * 1000) % 100000))
    with open(tmp, 'w') as f:
        json.dump(scenarios, f)
    env = dict(os.environ)
    env['VERIF_SCENARIO'] = tmp
    try:
        p = subprocess.run([exe, test, '--exact', '--nocapture', '--test-threads', '1'] if '::' in test else
                           [exe, test, '--nocapture', '--test-threads', '1'],
                           env=env, stdout=subprocess.PIPE, stderr=subprocess.PIPE, text=True, timeout=timeout, cwd=VCACHE)
    finally:
        try:
            os.remove(tmp)
        except OSError:
            pass
    out = {}
    for line in p.stdout.splitlines():
        k = line.find('VERIF-RESULT ')
        if k != -1:
            _, n, js = line[k:].split(' ', 2)
            out[int(n)] = json.loads(js)
    if len(out) != len(scenarios):
        raise RuntimeError('native replay produced %d results for %d scenarios: rc=%d\n%s\n%s' % (
            len(out), len(scenarios), p.returncode, p.stdout[-1500:], p.stderr[-1500:]))
    return [out[i] for i in range(len(scenarios))]


def matches(expect, got):
    for k, v in expect.items():
        if got.get(k) != v:
            return False
    return True


def replay(sc, path=None):
    """(True, detail) if the real code shows the behaviour the model predicts, (False, detail) if not,
    (None, msg) if the replay could not be run"""
    try:
        res = run_native([sc])[0]
    except Exception as e:
        return None, str(e)[:2000]
    exp = sc.get('expect', {})
    ok = matches(exp, res)
    detail = dict(dev=res)
    if ok and sc.get('replay_release', False):
        try:
            rel = run_native([sc], release=True)[0]
            detail['release'] = rel
        except Exception as e:
            detail['release'] = 'not run: %s' % str(e)[:300]
    return ok, detail
