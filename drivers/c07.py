"""C07 — a room definition accepted from a peer only adds entitled entries (merge kernel).
Entry point executed from MIR: RoomAuthorisations::prepare_room_node (check_consistency, prepare_room_with_history /
prepare_auth_with_history / prepare_new_room / prepare_new_auth, RoomNode::parse).  The candidate definition is assembled
by a symbolic attacker: the old rows plus one extra row (fresh, or an existing validly signed row replayed from another
list) attached by a reference whose author, date, label, source and target are symbolic."""
import itertools
import z3
from mirsym.interp import *
from mirsym.values import *
from mirsym.models import deref
from .lib import *
from .c01 import KEYS, ENTS
from . import c10
from .c10 import ADMIN, ROOM_ID, GROUP_ID, const_of, user_row, right_row, build_room_node, make_events, live_room
from .c15 import deep_eq

REQUIRED_WITNESSES = ['accepted', 'refused']
BOUNDS = {
    'quick': 'existing room: admin history [K1], one group with users [K2], user admins [K3], rights [E] (dates and flags symbolic, authorised by K1); candidate = the old '
             'rows plus ONE extra row placed in the admin / user-admin / user / right list; the extra row is fresh (symbolic author in {K1,K2,K3}, date, key, flags) or an '
             'existing row of another list replayed unchanged; the reference that places it has symbolic author, date, label (any of the four list labels), source '
             '(room or group) and target; plus a first-seen room whose single admin / user / right rows and references are symbolic',
    'thorough': 'same with two-entry histories in every list',
}
ASSUMPTIONS = [
    'every row and reference of the candidate carries a valid signature of its stated author (signature_verification_service runs before this kernel): '
    'the attacker can sign anything with its own keys and replay any existing row unchanged',
    'what places an entry in a room and list is the reference (source, label, target) attached to it: an entry is legitimately added when both the row and that '
    'reference were authored by a key entitled at the date of the entry, and the reference names that container, that list and that row',
    'JSON decoding of entry rows is an uninterpreted function of the row (same row => same user / right)',
]

PLACES = ['admin', 'user_admin', 'user', 'right']
HISTORY = dict(admins=['K1'], users=['K2'], user_admins=['K3'], rights=['E'])


def shapes(tier):
    out = []
    for place in PLACES:
        srcs = ['fresh'] + ([s for s in ('admin_row', 'user_row', 'user_admin_row') if s.split('_row')[0] != place] if place != 'right' else [])
        for src in srcs:
            out.append(dict(part='history', place=place, source=src))
        # a second row carrying the id of an existing row of the same list, with other content
        out.append(dict(part='history', place=place, source='duplicate_id'))
    for place in PLACES:
        out.append(dict(part='history', place=place, source='omission'))
    out.append(dict(part='history', place=None, source='altered'))
    for place in PLACES + [None]:
        out.append(dict(part='new_room', place=place))
    return out


def label_of(ctx, place):
    return const_of(ctx, {'admin': 'ROOM_ADMIN_FIELD_SHORT', 'user_admin': 'AUTH_USER_ADMIN_FIELD_SHORT', 'user': 'AUTH_USER_FIELD_SHORT', 'right': 'AUTH_RIGHTS_FIELD_SHORT'}[place])


def entitled(ev, ge, place, key, date):
    """the documented rule: admins for admins, groups, rights and user admins; an admin or a user admin of the group for users"""
    adm = is_admin(ev, key, date)
    if place == 'user':
        return zor(adm, latest_enabled(ge.user_admins, key, date))
    return adm


def explore(ctx, shape, tier, report):
    return {'history': explore_history, 'new_room': explore_new_room}[shape['part']](ctx, shape, tier, report)


def rows_of(w, rn):
    """{'admin': [(edge, node)], 'user': ..} of a RoomNode value with one group"""
    out = {}
    out['admin'] = list(zip([c.v for c in deref(w.field(rn, 'RoomNode', 'admin_edges').v).elems], [c.v for c in deref(w.field(rn, 'RoomNode', 'admin_nodes').v).elems]))
    an = deref(w.field(rn, 'RoomNode', 'auth_nodes').v).elems[0].v
    for place, e, n in (('right', 'right_edges', 'right_nodes'), ('user', 'user_edges', 'user_nodes'), ('user_admin', 'user_admin_edges', 'user_admin_nodes')):
        out[place] = list(zip([c.v for c in deref(w.field(an, 'AuthorisationNode', e).v).elems], [c.v for c in deref(w.field(an, 'AuthorisationNode', n).v).elems]))
    return out, an


def explore_history(ctx, shape, tier, report):
    prn = ctx.method('RoomAuthorisations', 'prepare_room_node')
    parse = ctx.method('RoomNode', 'parse')
    place, source = shape['place'], shape['source']

    def path(ctx):
        w = World(ctx)
        ev = make_events(w, HISTORY)
        ge = ev.groups[0]
        live = live_room(ctx, w, ev)
        dates = [d for (_, d, _) in ev.admins] + [d for (_, d, _) in ge.users] + [d for (_, d, _) in ge.user_admins] + [d for (_, d, _, _) in ge.rights]
        ctx.assume(zand(*[is_admin(ev, ADMIN, d) for d in dates]))
        old_rn = build_room_node(ctx, w, ev)
        cand = clone_val(old_rn)
        rows, an = rows_of(w, cand)
        info = dict(part='history', shape=shape, ev=ev)
        extra = None
        if source == 'omission':
            # the candidate leaves an old entry out: the merge must put it back
            if place == 'admin':
                deref(w.field(cand, 'RoomNode', 'admin_nodes').v).elems.pop()
                deref(w.field(cand, 'RoomNode', 'admin_edges').v).elems.pop()
            else:
                deref(w.field(an, 'AuthorisationNode', place + '_nodes').v).elems.pop()
                deref(w.field(an, 'AuthorisationNode', place + '_edges').v).elems.pop()
        elif source == 'altered':
            # same id, other content for an existing admin row
            node = w.field(rows['admin'][0][1], 'UserNode', 'node').v
            w.field(node, 'Node', '_json').v = some(w.atom('altered_json', None, 'str'))
        else:
            container = ROOM_ID if place == 'admin' else GROUP_ID
            if source in ('fresh', 'duplicate_id'):
                author = w.atom('x_author', KEYS, 'bytes', n=33)
                date = w.i64('x_date')
                if place == 'right':
                    en, ms, ma = w.atom('x_ent', ENTS, 'str'), w.boolean('x_ms'), w.boolean('x_ma')
                    node, nid = right_row(ctx, w, 'xrow', en, date, ms, ma, author)
                    extra = dict(kind='right', entity=en, ms=ms, ma=ma)
                else:
                    k, e = w.atom('x_key', KEYS, 'bytes', n=33), w.boolean('x_en')
                    node, nid = user_row(ctx, w, 'xrow', k, date, e, author)
                    extra = dict(kind='user', key=k, enabled=e)
            else:
                # replay of an existing validly signed row from another list, unchanged
                src_place = source[:-4]
                node = clone_val(rows[src_place][0][1])
                inner = w.field(node, 'UserNode', 'node').v
                nid = deref(w.field(inner, 'Node', 'id').v)
                author = deref(w.field(inner, 'Node', 'verifying_key').v)
                date = w.field(inner, 'Node', 'mdate').v
                srcev = {'admin': ev.admins, 'user': ge.users, 'user_admin': ge.user_admins}[src_place][0]
                extra = dict(kind='user', key=srcev[0], enabled=srcev[2])
            if source == 'duplicate_id':
                existing = rows[place][0][1]
                inner_old = w.field(existing, 'UserNode' if place != 'right' else 'EntityRightNode', 'node').v
                nid = deref(w.field(inner_old, 'Node', 'id').v)
                inner_new = w.field(node, 'UserNode' if place != 'right' else 'EntityRightNode', 'node').v
                w.field(inner_new, 'Node', 'id').v = nid
            e_author = w.atom('x_edge_author', KEYS, 'bytes', n=33)
            e_date = w.i64('x_edge_date')
            e_label = w.atom('x_edge_label', [label_of(ctx, p) for p in PLACES], 'str')
            e_src = w.atom('x_edge_src', [ROOM_ID, GROUP_ID], 'uid', n=16)
            e_dest = w.atom('x_edge_dest', None, 'uid', n=16)
            edge = w.edge(src=e_src, src_entity=w.atom('x_edge_se', None, 'str'), label=e_label, dest=e_dest, cdate=e_date, author=e_author)
            extra.update(author=author, date=date, nid=nid, e_author=e_author, e_date=e_date, e_label=e_label, e_src=e_src, e_dest=e_dest, container=container)
            if place == 'admin':
                deref(w.field(cand, 'RoomNode', 'admin_edges').v).elems.append(Cell(edge))
                deref(w.field(cand, 'RoomNode', 'admin_nodes').v).elems.append(Cell(node))
            else:
                f = {'user_admin': ('user_admin_edges', 'user_admin_nodes'), 'user': ('user_edges', 'user_nodes'), 'right': ('right_edges', 'right_nodes')}[place]
                deref(w.field(an, 'AuthorisationNode', f[0]).v).elems.append(Cell(edge))
                deref(w.field(an, 'AuthorisationNode', f[1]).v).elems.append(Cell(node))
            if source == 'duplicate_id':
                # together with an honest-looking addition that really is entitled (so that the definition has something new to store)
                a2, d2 = w.atom('x2_author', KEYS, 'bytes', n=33), w.i64('x2_date')
                ctx.assume(entitled(ev, ge, 'user', a2, d2))
                n2, nid2 = user_row(ctx, w, 'x2row', S(lit=KEYS[1]), d2, True, a2)
                e2 = w.edge(src=GROUP_ID, src_entity=S(lit='0.1'), label=label_of(ctx, 'user'), dest=nid2, cdate=d2, author=a2)
                deref(w.field(an, 'AuthorisationNode', 'user_edges').v).elems.append(Cell(e2))
                deref(w.field(an, 'AuthorisationNode', 'user_nodes').v).elems.append(Cell(n2))
                extra['legit'] = dict(author=a2, date=d2, key=deref(w.field(w.field(n2, 'UserNode', 'node').v, 'Node', 'id').v))
                info['legit'] = (a2, d2, n2)
            # the group row itself is presented unchanged (same mdate): only the lists are in question
        info['extra'] = extra
        ra = w.struct('RoomAuthorisations', signing_key=w.signing_key(ADMIN), rooms=MapV([[ROOM_ID, live]]), max_node_size=w.u64('max'))
        snapshot = clone_val(live.v)
        cc = Cell(cand)
        try:
            res = ctx.exec_fn(prn, [Ref(Cell(ra)), some(old_rn), Ref(cc, True)])
        except Panic as p:
            report.panic(ctx, w, p, info)
            return
        accepted = res.variant == 0
        report.path(accepted)
        same = deep_eq(live.v, snapshot)
        if same is not True and ctx.check_sat(znot(zb(same))) is not None:
            info['problem'] = 'the registered room was modified while a candidate was examined'
            report.violation(ctx, ctx.check_sat(True), 'merge', info)
            return
        if not accepted:
            report.witness('refused')
            return
        report.witness('accepted')
        applied = res.fields[0].v
        if applied is False:
            return          # Ok(false): "nothing new", the candidate is dropped and nothing is stored or registered
        r2 = ctx.exec_fn(parse, [Ref(cc)])
        if r2.variant != 0:
            info['problem'] = 'an accepted definition cannot be parsed into a room'
            report.violation(ctx, ctx.check_sat(True), 'merge', info)
            return
        newroom = r2.fields[0].v
        conds = []
        pres = entries_preserved(w, snapshot, newroom)
        if pres is not True:
            conds.append(('an existing entry was removed or altered', zb(pres)))
        if extra is not None:
            # was the extra entry really added?  (an entry equal to an existing one of the same list adds nothing)
            lists_new = {'admin': deref(w.field(newroom, 'Room', 'admins').v)}
            auth_new = deref(w.field(newroom, 'Room', 'authorisations').v).entries[0][1].v
            lists_new.update(user=deref(w.field(auth_new, 'Authorisation', 'users').v), user_admin=deref(w.field(auth_new, 'Authorisation', 'user_admins').v),
                             right=deref(w.field(auth_new, 'Authorisation', 'rights').v))
            old_counts = dict(admin=len(ev.admins), user=len(ge.users), user_admin=len(ge.user_admins), right=len(ge.rights))
            if 'legit' in extra:
                old_counts['user'] += 1
            new_count = sum(len(deref(c.v).elems) for _, c in lists_new[place].entries)
            if new_count > old_counts[place]:
                ok_row = entitled(ev, ge, place, extra['author'], extra['date'])
                ok_edge_author = entitled(ev, ge, place, extra['e_author'], extra['date'])
                ok_edge_shape = zand(seq(extra['e_src'], extra['container']), seq(extra['e_dest'], extra['nid']), seq(extra['e_label'], label_of(ctx, place)))
                conds.append(('the added row was not authored by an entitled key', ok_row, None))
                # preferred witness: the attacker promotes itself (the entry names the key that signed the reference, enabled)
                pref = zand(ok_edge_shape, zb(extra.get('enabled', True)), seq(extra['key'], extra['e_author'])) if extra['kind'] == 'user' else ok_edge_shape
                conds.append(('the reference placing the added row was authored by a key that is not entitled', ok_edge_author, pref))
                conds.append(('the reference of the added row does not designate that container, list and row', ok_edge_shape, None))
        for item in conds:
            label, c = item[0], item[1]
            pref = item[2] if len(item) > 2 else None
            m = ctx.check_sat(znot(c))
            if m is not None:
                info2 = dict(info)
                if pref is not None:
                    m2 = ctx.check_sat(zand(znot(c), pref))
                    if m2 is not None:
                        m = m2
                        info2['preferred'] = True
                info2['problem'] = label
                # every failing obligation is reported under its own signature (a recorded finding must not hide another one)
                report.violation(ctx, m, 'merge', info2)

    ctx.explore(path)


def entries_preserved(w, old_room, new_room):
    """every old (key -> history) is still there: the old history is a sub-sequence of the new one, entries unchanged"""
    def subseq(ol, nl):
        if len(nl) < len(ol):
            return False
        alts = False
        for keep in itertools.combinations(range(len(nl)), len(ol)):
            r = True
            for x, j in zip(ol, keep):
                r = b_and(r, deep_eq(x.v, nl[j].v))
            alts = b_or(alts, r)
        return alts

    def maps(om, nm):
        r = True
        for k, c in deref(om).entries:
            one = False
            for k2, c2 in deref(nm).entries:
                ke = deep_eq(k, k2)
                if ke is False:
                    continue
                one = b_or(one, b_and(ke, subseq(deref(c.v).elems, deref(c2.v).elems)))
            r = b_and(r, one)
        return r
    res = maps(w.field(old_room, 'Room', 'admins').v, w.field(new_room, 'Room', 'admins').v)
    oa, na = deref(w.field(old_room, 'Room', 'authorisations').v), deref(w.field(new_room, 'Room', 'authorisations').v)
    for k, c in oa.entries:
        alts = False
        for k2, c2 in na.entries:
            ke = deep_eq(k, k2)
            if ke is False:
                continue
            g = ke
            for fld in ('users', 'rights', 'user_admins'):
                g = b_and(g, maps(w.field(c.v, 'Authorisation', fld).v, w.field(c2.v, 'Authorisation', fld).v))
            alts = b_or(alts, g)
        res = b_and(res, alts)
    return res


def explore_new_room(ctx, shape, tier, report):
    """a room never seen before: accepted only if its whole history is consistent under the same rule"""
    prn = ctx.method('RoomAuthorisations', 'prepare_room_node')
    bad_place = shape['place']

    def path(ctx):
        w = World(ctx)
        ev = make_events(w, HISTORY)
        ge = ev.groups[0]
        rn = build_room_node(ctx, w, ev)      # rows authored by K1 (driver default) ...
        rows, an = rows_of(w, rn)
        info = dict(part='new_room', shape=shape, ev=ev)
        sym = None
        if bad_place is not None:
            # ... except one entry whose row author and reference author are symbolic
            edge, node = rows[bad_place][0]
            inner = w.field(node, 'UserNode' if bad_place != 'right' else 'EntityRightNode', 'node').v
            ra_ = w.atom('y_row_author', KEYS, 'bytes', n=33)
            ea_ = w.atom('y_edge_author', KEYS, 'bytes', n=33)
            ed_ = w.i64('y_edge_date')
            w.field(inner, 'Node', 'verifying_key').v = ra_
            w.field(edge, 'Edge', 'verifying_key').v = ea_
            w.field(edge, 'Edge', 'cdate').v = ed_
            sym = dict(row_author=ra_, edge_author=ea_, edge_date=ed_, date=w.field(inner, 'Node', 'mdate').v)
        info['sym'] = sym
        ra = w.struct('RoomAuthorisations', signing_key=w.signing_key(ADMIN), rooms=MapV(), max_node_size=w.u64('max'))
        try:
            res = ctx.exec_fn(prn, [Ref(Cell(ra)), none(), Ref(Cell(rn), True)])
        except Panic as p:
            report.panic(ctx, w, p, info)
            return
        accepted = res.variant == 0
        report.path(accepted)
        report.witness('accepted' if accepted else 'refused')
        if not accepted or sym is None:
            return
        conds = [('a row of a first-seen room was not authored by an entitled key', entitled(ev, ge, bad_place, sym['row_author'], sym['date'])),
                 ('a reference of a first-seen room was not authored by an entitled key', entitled(ev, ge, bad_place, sym['edge_author'], sym['date']))]
        for label, c in conds:
            m = ctx.check_sat(znot(c))
            if m is not None:
                info2 = dict(info)
                info2['problem'] = label
                report.violation(ctx, m, 'merge', info2)

    ctx.explore(path)


def scenario(ctx, m, kind, info):
    c = Concretizer(m)
    sh = info['shape']
    sc = dict(kind='room_node_merge', property='C07', part=info['part'], shape=sh, room=c.room(info['ev']), admin=ADMIN.lit.decode())
    ex = info.get('extra')
    if ex:
        d = dict(author=c.atom(ex['author']), date=c.int(ex['date']), edge_author=c.atom(ex['e_author']), edge_date=c.int(ex['e_date']), edge_label=c.atom(ex['e_label']),
                 edge_src=c.atom(ex['e_src']), edge_dest=c.atom(ex['e_dest']), row_id=c.atom(ex['nid']))
        if ex['kind'] == 'user':
            d.update(key=c.atom(ex['key']), enabled=c.bool(ex['enabled']))
        else:
            d.update(entity=c.atom(ex['entity']), mutate_self=c.bool(ex['ms']), mutate_all=c.bool(ex['ma']))
        if 'legit' in ex:
            a2, d2, n2 = info['legit']
            d['legit'] = dict(author=c.atom(a2), date=c.int(d2))
        sc['extra'] = d
    sy = info.get('sym')
    if sy:
        sc['sym'] = dict(row_author=c.atom(sy['row_author']), edge_author=c.atom(sy['edge_author']), edge_date=c.int(sy['edge_date']))
    if kind == 'panic':
        sc['expect'] = dict(result='panic')
        return sc
    sc['expect'] = dict(result='Ok')
    if sh.get('source') in ('omission', 'altered') and info.get('problem') == 'an existing entry was removed or altered':
        sc['expect']['entries_preserved'] = False
    sc['what'] = 'prepare_room_node accepts a candidate although: %s (extra row in the %s list, source %s)' % (info.get('problem'), sh.get('place'), sh.get('source'))
    sc['signature'] = 'merge:%s:%s%s' % (info['part'], 'duplicate-id:' if sh.get('source') == 'duplicate_id' else '', info.get('problem'))
    sc['preferred'] = bool(info.get('preferred'))
    return sc
