"""C11 — a deleted row stays deleted (fetch-selection kernel only).
Whether a row announced by a peer is fetched and stored again is decided by Node::filter_existing (and nothing after it: the
ingestion path validates signature and rights only).  The real function is executed from MIR with a symbolic SQL cursor that
serves two tables, `_node` (the stored rows) and `_node_deletion_log` (the tombstones), on the state a deletion leaves behind:
the row is gone and its tombstone (id, version date) is in the log.  z3 decides: an announced version of that row that is not
newer than the deleted version is not requested."""
import z3
from mirsym.interp import *
from mirsym.values import *
from mirsym.models import deref
import mirsym.models as MM
from .lib import *
from . import c03
from .c03 import Version, identifier, stored_row, run_filter, requested, IDS

REQUIRED_WITNESSES = ['not-requested', 'requested']
BOUNDS = {
    'quick': 'one announced identifier (symbolic 64-bit version date and signature) of a row that was deleted locally (not stored; tombstone with a symbolic version date), '
             'alone or together with an announced identifier of an unrelated, stored or unknown row; every HashSet iteration order',
    'thorough': 'same as quick',
}
ASSUMPTIONS = c03.ASSUMPTIONS[:2] + [
    'the cursor serves `_node` and `_node_deletion_log` (columns by name, read from the SQL text the function prepares); SQL over any other table is reported as not modelled',
    'only the selection of what is fetched is covered; that nothing downstream re-checks tombstones was established by reading (validate_node, NodeToInsert::write) and '
    'is confirmed by the native replay, which goes through filter_existing_node + add_nodes of a real database and then queries the row',
]


def shapes(tier):
    return [dict(part='deleted', other=o) for o in ('none', 'unknown', 'stored')]


def explore(ctx, shape, tier, report):
    state = {}
    stubs = c03.install(ctx, state)
    fe = ctx.method('Node', 'filter_existing')
    MM.KEY_EQ_FIELDS['NodeIdentifier'] = [0]
    ctx.map_order = 'all'

    def path(ctx):
        w = World(ctx)
        a = Version(w, 'a')            # what the peer announces
        t_mdate = w.i64('tomb_mdate')  # version that was deleted here
        room = S(lit=b'R' * 16)
        state['tables'] = {'_node_deletion_log': [dict(id=IDS[0], mdate=t_mdate, room_id=room, entity=S(lit='E'), deletion_date=w.i64('tomb_ddate'),
                                                       verifying_key=w.atom('tomb_author', None, 'bytes', n=33), signature=w.atom('tomb_sig', None, 'bytes'))]}
        ann = [identifier(w, IDS[0], a)]
        stored = []
        if shape['other'] == 'unknown':
            ann.append(identifier(w, IDS[1], Version(w, 'x')))
        elif shape['other'] == 'stored':
            ann.append(identifier(w, IDS[1], Version(w, 'x')))
            stored.append(stored_row(w, IDS[1], Version(w, 'y'), 'st'))
        info = dict(part='deleted', shape=shape, a=a, t_mdate=t_mdate)
        try:
            out, left = run_filter(ctx, w, fe, state, ann, stored)
        except Panic as p:
            report.panic(ctx, w, p, info)
            return
        if out is None:
            raise Inconclusive('filter_existing failed although the cursor does not')
        req = requested(out, IDS[0])
        info['requested'] = req
        info['statements'] = list(state.get('statements', []))
        report.path(req)
        report.witness('requested' if req else 'not-requested')
        if shape['other'] == 'stored' and not requested(out, IDS[1]):
            report.witness('not-requested')     # the cursor-driven function can refuse: the stored row of the same batch
        if report.want_sample(req):
            ms = ctx.check_sat(True)
            if ms is not None:
                report.sample(scenario(ctx, ms, 'sample', info))
        if req:
            m = ctx.check_sat(a.mdate.z() == t_mdate.z()) or ctx.check_sat(a.mdate.z() <= t_mdate.z())
            if m is not None:
                info['problem'] = 'a row that was deleted here is requested again at the deleted (or an older) version'
                report.violation(ctx, m, 'deleted-row-fetched-again', info)

    try:
        ctx.explore(path)
    finally:
        ctx.map_order = 'fixed'
        MM.KEY_EQ_FIELDS.pop('NodeIdentifier', None)
        for k in stubs:
            ctx.stubs.pop(k, None)


def scenario(ctx, m, kind, info):
    c = Concretizer(m)
    am, tm = c.int(info['a'].mdate), c.int(info['t_mdate'])
    # the native side can only announce versions it can sign: the deleted version itself (same date) or — through the signing service — a re-dated copy
    rel = 'same' if am == tm else ('older' if am < tm else 'newer')
    sc = dict(kind='deleted_row_announced', property='C11', announced=rel, other=info['shape']['other'])
    if kind == 'panic':
        sc['expect'] = dict(result='panic')
        return sc
    sc['expect'] = dict(requested=bool(info['requested']))
    if kind == 'sample':
        return sc
    sc['expect']['visible_after'] = True
    sc['what'] = 'Node::filter_existing: %s; natively the row is fetched, accepted by add_nodes and visible to queries again' % info.get('problem')
    sc['signature'] = 'deleted-row-fetched-again:%s' % rel
    return sc
