"""C10 — a room means the same live, after restart, and on a peer that imports it (construction kernel).
Three builders of a Room executed from MIR on the same symbolic history:
  live   : the add_* calls the room-mutation path performs (ground truth, must succeed);
  import : RoomNode built in the order RoomNode::read / AuthorisationNode::read produce (their real sort_by
           comparator closures are interpreted on the symbolic dates), then prepare_new_room + parse (fresh peer);
  reload : the JSON the LOAD_QUERY returns, lists in the order its order_by clauses demand (direction read from
           the LOAD_QUERY constant of the current tree), through load_json / load_auth_from_json."""
import re
import itertools
import z3
from mirsym.interp import *
from mirsym.values import *
from mirsym.models import deref, jv, A, JSON_VALID, JSON_IS_OBJ, JSON_HAS, JSON_IS_STR, JSON_STR, JSON_IS_BOOL, JSON_BOOL, B64_OK, B64_DEC, slice_sort_by
from .lib import *
from mirsym import values as V
from .c01 import KEYS, ENTS

REQUIRED_WITNESSES = ['import-ok', 'reload-ok', 'decisions-equal']
BOUNDS = {
    'quick': 'one room, one group; per list 1-3 entries for the fixed key patterns below (enabled / disabled / re-enabled histories, rights replaced over time, '
             'all-rows-without-own-rows flags), every date 64-bit symbolic, every flag symbolic; entry authors = the admin key; the decision matrix is compared on a symbolic '
             '(key, entity, date, right)',
    'thorough': 'same with two groups and 3-entry histories for every list',
}
ASSUMPTIONS = [
    'the reload JSON contains exactly the entries the live path accepted (the SQL that produces it is outside); their ORDER and the filters are taken from LOAD_QUERY (parsed from '
    'the constant). The export is assembled by the REAL RoomNode::read / AuthorisationNode::read / UserNode::read / EntityRightNode::read executed over a modelled store that answers '
    'their two lookups (references by (source, label), rows by (id, entity)) from exactly the accepted rows',
    'a row and the reference that attaches it carry the same date (both are created by one mutation)',
    'entry rows are JSON objects holding exactly the fields the data model defines (uninterpreted JSON model)',
]

ADMIN = KEYS[0]
ROOM_ID = S(lit=b'R1'.ljust(16, b'r'))
GROUP_ID = S(lit=b'G1'.ljust(16, b'g'))

HISTORIES = {
    'quick': [
        dict(admins=['K1'], users=['K2', 'K2'], user_admins=['K3'], rights=['E']),
        dict(admins=['K1', 'K1'], users=['K2'], user_admins=[], rights=['E', 'E']),
        dict(admins=['K1'], users=['K2', 'K2', 'K2'], user_admins=['K3', 'K3'], rights=['E', '*']),
        dict(admins=['K1'], users=['K2', 'K3'], user_admins=[], rights=['*']),
    ],
    'thorough': [
        dict(admins=['K1', 'K1', 'K1'], users=['K2', 'K2', 'K2'], user_admins=['K3', 'K3', 'K3'], rights=['E', 'E', 'E']),
        dict(admins=['K1', 'K2'], users=['K2', 'K3', 'K2'], user_admins=['K3', 'K1'], rights=['E', '*', 'E']),
    ],
}


def shapes(tier):
    hs = HISTORIES['quick'] + (HISTORIES['thorough'] if tier == 'thorough' else [])
    out = []
    for i in range(len(hs)):
        for path in ('import', 'reload'):
            out.append(dict(history=i, path=path))
    return out


def histories(tier):
    return HISTORIES['quick'] + (HISTORIES['thorough'] if tier == 'thorough' else [])


def key_named(n):
    return [k for k in KEYS if k.lit.startswith(n.encode())][0]


def make_events(w, h):
    ev = RoomEvents(ROOM_ID)
    ge = GroupEvents(GROUP_ID)
    ev.groups.append(ge)
    for i, k in enumerate(h['admins']):
        ev.admins.append((key_named(k), w.i64('adm%d_date' % i), w.boolean('adm%d_en' % i)))
    for i, k in enumerate(h['users']):
        ge.users.append((key_named(k), w.i64('usr%d_date' % i), w.boolean('usr%d_en' % i)))
    for i, k in enumerate(h['user_admins']):
        ge.user_admins.append((key_named(k), w.i64('uad%d_date' % i), w.boolean('uad%d_en' % i)))
    for i, e in enumerate(h['rights']):
        ge.rights.append((S(lit=e), w.i64('rgt%d_date' % i), w.boolean('rgt%d_ms' % i), w.boolean('rgt%d_ma' % i)))
    return ev


def live_room(ctx, w, ev):
    """the live path: entries appended in the order they were created; all accepted (precondition of the history)"""
    room = ctx.call(ctx.method('Room', 'default', 'Default'), [])
    w.field(room, 'Room', 'id').v = ev.id
    rc = Cell(room)

    def must_ok(r):
        if r.variant != 0:
            raise PathEnd()
    for k, d, e in ev.admins:
        must_ok(ctx.call(ctx.method('Room', 'add_admin_user'), [Ref(rc, True), w.user(k, d, e)]))
    for ge in ev.groups:
        auth = ctx.call(ctx.method('Authorisation', 'default', 'Default'), [])
        w.field(auth, 'Authorisation', 'id').v = ge.id
        ac = Cell(auth)
        for k, d, e in ge.users:
            must_ok(ctx.call(ctx.method('Authorisation', 'add_user'), [Ref(ac, True), w.user(k, d, e)]))
        for k, d, e in ge.user_admins:
            must_ok(ctx.call(ctx.method('Authorisation', 'add_user_admin'), [Ref(ac, True), w.user(k, d, e)]))
        for en, d, ms, ma in ge.rights:
            right = ctx.call(ctx.method('EntityRight', 'new'), [d, en, ms, ma])
            must_ok(ctx.call(ctx.method('Authorisation', 'add_right'), [Ref(ac, True), right]))
        must_ok(ctx.call(ctx.method('Room', 'add_auth'), [Ref(rc, True), ac.v]))
    return rc


def const_of(ctx, name):
    sc = ctx.index.simple_consts.get(name)
    if not sc:
        raise Inconclusive('constant %s not found' % name)
    return S(lit=next(iter(sc))[1].strip('"'), text=True)


def user_row(ctx, w, tag, key, date, enabled, author):
    """a sys.UserAuth row: node + the reference that attaches it"""
    j = w.atom(tag + '_json', None, 'str')
    ja = j.atom
    kf, ef = const_of(ctx, 'USER_VERIFYING_KEY_SHORT').as_atom(), const_of(ctx, 'USER_ENABLED_SHORT').as_atom()
    ctx.add(z3.And(JSON_VALID(ja), JSON_IS_OBJ(ja), JSON_HAS(ja, kf), JSON_IS_STR(ja, kf), B64_OK(JSON_STR(ja, kf)), B64_DEC(JSON_STR(ja, kf)) == key.as_atom(),
                   JSON_HAS(ja, ef), JSON_IS_BOOL(ja, ef), JSON_BOOL(ja, ef) == zb(enabled)))
    nid = S(lit=(tag.encode()).ljust(16, b'.'))
    node = w.node(id=nid, room_id=None, cdate=date, mdate=date, entity=const_of(ctx, 'USER_AUTH_ENT_SHORT'), author=author, json=j)
    return w.struct('UserNode', node=node), nid


def right_row(ctx, w, tag, entity, date, ms, ma, author):
    j = w.atom(tag + '_json', None, 'str')
    ja = j.atom
    f_e, f_s, f_a = [const_of(ctx, n).as_atom() for n in ('RIGHT_ENTITY_SHORT', 'RIGHT_MUTATE_SELF_SHORT', 'RIGHT_MUTATE_ALL_SHORT')]
    ctx.add(z3.And(JSON_VALID(ja), JSON_IS_OBJ(ja), JSON_HAS(ja, f_e), JSON_IS_STR(ja, f_e), JSON_STR(ja, f_e) == entity.as_atom(),
                   JSON_HAS(ja, f_s), JSON_IS_BOOL(ja, f_s), JSON_BOOL(ja, f_s) == zb(ms), JSON_HAS(ja, f_a), JSON_IS_BOOL(ja, f_a), JSON_BOOL(ja, f_a) == zb(ma)))
    nid = S(lit=(tag.encode()).ljust(16, b'.'))
    node = w.node(id=nid, room_id=None, cdate=date, mdate=date, entity=const_of(ctx, 'ENTITY_RIGHT_ENT_SHORT'), author=author, json=j)
    return w.struct('EntityRightNode', node=node), nid


def read_closures(ctx, tyname):
    """the comparator closures of <tyname>::read in source order, as closure values"""
    out = []
    for name, f in sorted(ctx.mod.funcs.items(), key=lambda kv: kv[1].start):
        if '::read::{closure#' in name and getattr(f, 'args', None):
            span = None
            for seg in f.segs:
                if seg.startswith('<impl at '):
                    span = seg[9:-1]
            if span and ctx.src.impl_info(span)[0] == tyname:
                m = re.search(r'\{closure@[^{}]*\}', f.args[0][1])
                out.append(Struct(m.group(0), []))
    return out


def sorted_by_read(ctx, w, rows, closure):
    """rows = [(edge, node)]: order in which read() presents them: edges sorted by the real comparator, nodes follow the edges"""
    edges = VecV([Cell(e) for e, n in rows])
    slice_sort_by(ctx, [Ref(Cell(edges), True), closure], None, None)
    out = []
    for c in edges.elems:
        for e, n in rows:
            if e is c.v:
                out.append((e, n))
    return out


def build_room_node(ctx, w, ev):
    """what the exporting peer's RoomNode::read returns for this history"""
    rn_cl = read_closures(ctx, 'RoomNode')
    an_cl = read_closures(ctx, 'AuthorisationNode')
    if len(rn_cl) != 1 or len(an_cl) != 3:
        raise Inconclusive('RoomNode::read / AuthorisationNode::read no longer sort with 1 / 3 comparators (%d / %d found)' % (len(rn_cl), len(an_cl)))
    room_node = w.node(id=ev.id, room_id=None, cdate=w.i64('room_cdate'), mdate=w.i64('room_mdate'), entity=const_of(ctx, 'ROOM_ENT_SHORT'), author=ADMIN,
                       json=w.atom('room_json', None, 'str'))
    rows = []
    for i, (k, d, e) in enumerate(ev.admins):
        un, nid = user_row(ctx, w, 'adm%d' % i, k, d, e, ADMIN)
        edge = w.edge(src=ev.id, src_entity=const_of(ctx, 'ROOM_ENT_SHORT'), label=const_of(ctx, 'ROOM_ADMIN_FIELD_SHORT'), dest=nid, cdate=d, author=ADMIN)
        rows.append((edge, un))
    rows = sorted_by_read(ctx, w, rows, rn_cl[0])
    auth_nodes, auth_edges = [], []
    for gi, ge in enumerate(ev.groups):
        gm = w.i64('g%d_mdate' % gi)
        ctx.assume(is_admin(ev, ADMIN, gm))      # the group row was written by the admin while it was an admin
        gnode = w.node(id=ge.id, room_id=None, cdate=w.i64('g%d_cdate' % gi), mdate=gm, entity=const_of(ctx, 'AUTHORISATION_ENT_SHORT'), author=ADMIN,
                       json=w.atom('g%d_json' % gi, None, 'str'))
        lists = {}
        # AuthorisationNode::read: closure#0 sorts the rights, #1 the users, #2 the user admins
        for name, entries, cl, label in (('right', ge.rights, an_cl[0], 'AUTH_RIGHTS_FIELD_SHORT'), ('user', ge.users, an_cl[1], 'AUTH_USER_FIELD_SHORT'),
                                         ('user_admin', ge.user_admins, an_cl[2], 'AUTH_USER_ADMIN_FIELD_SHORT')):
            rr = []
            for i, entry in enumerate(entries):
                if name == 'right':
                    en, d, ms, ma = entry
                    n, nid = right_row(ctx, w, 'g%d_%s%d' % (gi, name, i), en, d, ms, ma, ADMIN)
                else:
                    k, d, e = entry
                    n, nid = user_row(ctx, w, 'g%d_%s%d' % (gi, name, i), k, d, e, ADMIN)
                edge = w.edge(src=ge.id, src_entity=const_of(ctx, 'AUTHORISATION_ENT_SHORT'), label=const_of(ctx, label), dest=nid, cdate=d, author=ADMIN)
                rr.append((edge, n))
            lists[name] = sorted_by_read(ctx, w, rr, cl)
        an = w.struct('AuthorisationNode', node=gnode, last_modified=w.i64('g%d_lm' % gi),
                      right_edges=VecV([Cell(e) for e, n in lists['right']]), right_nodes=VecV([Cell(n) for e, n in lists['right']]),
                      user_edges=VecV([Cell(e) for e, n in lists['user']]), user_nodes=VecV([Cell(n) for e, n in lists['user']]),
                      user_admin_edges=VecV([Cell(e) for e, n in lists['user_admin']]), user_admin_nodes=VecV([Cell(n) for e, n in lists['user_admin']]),
                      need_update=True)
        auth_nodes.append(an)
        auth_edges.append(w.edge(src=ev.id, src_entity=const_of(ctx, 'ROOM_ENT_SHORT'), label=const_of(ctx, 'ROOM_AUTHORISATION_FIELD_SHORT'), dest=ge.id,
                                 cdate=w.i64('g%d_edge_cdate' % gi), author=ADMIN))
    return w.struct('RoomNode', node=room_node, last_modified=w.i64('room_lm'), admin_edges=VecV([Cell(e) for e, n in rows]),
                    admin_nodes=VecV([Cell(n) for e, n in rows]), auth_edges=VecV([Cell(e) for e in auth_edges]), auth_nodes=VecV([Cell(n) for n in auth_nodes]))


def read_export(ctx, w, rn):
    """the RoomNode the REAL RoomNode::read / AuthorisationNode::read / UserNode::read / EntityRightNode::read return when the database holds exactly
    the rows and references of `rn` (references are found by (source, label), rows by (id, entity): the two lookups the real code performs)"""
    edges, nodes = [], []

    def add_list(es, ns, kind):
        for ec, nc in zip(deref(es).elems, deref(ns).elems):
            edges.append(ec.v)
            nodes.append(w.field(nc.v, kind, 'node').v)
    nodes.append(w.field(rn, 'RoomNode', 'node').v)
    add_list(w.field(rn, 'RoomNode', 'admin_edges').v, w.field(rn, 'RoomNode', 'admin_nodes').v, 'UserNode')
    for ec, ac in zip(deref(w.field(rn, 'RoomNode', 'auth_edges').v).elems, deref(w.field(rn, 'RoomNode', 'auth_nodes').v).elems):
        edges.append(ec.v)
        an = ac.v
        nodes.append(w.field(an, 'AuthorisationNode', 'node').v)
        add_list(w.field(an, 'AuthorisationNode', 'right_edges').v, w.field(an, 'AuthorisationNode', 'right_nodes').v, 'EntityRightNode')
        add_list(w.field(an, 'AuthorisationNode', 'user_edges').v, w.field(an, 'AuthorisationNode', 'user_nodes').v, 'UserNode')
        add_list(w.field(an, 'AuthorisationNode', 'user_admin_edges').v, w.field(an, 'AuthorisationNode', 'user_admin_nodes').v, 'UserNode')

    def same(a, b):
        r = s_eq(deref(a), deref(b))
        if r is True or r is False:
            return r
        raise Unsupported('the export model needs concrete ids and labels')

    def get_edges(ctx_, args):
        src, label = deref(args[0]), deref(args[1])
        return ok(VecV([Cell(clone_val(e)) for e in edges if same(w.field(e, 'Edge', 'src').v, src) and same(w.field(e, 'Edge', 'label').v, label)]))

    def get_with_entity(ctx_, args):
        nid, ent = deref(args[0]), deref(args[1])
        for n in nodes:
            if same(w.field(n, 'Node', 'id').v, nid) and same(w.field(n, 'Node', '_entity').v, ent):
                return ok(some(clone_val(n)))        # Box<Node> stands for its content
        return ok(none())
    hooks = {ctx.method('Edge', 'get_edges').name: get_edges, ctx.method('Node', 'get_with_entity').name: get_with_entity}
    ctx.call_hooks.update(hooks)
    try:
        res = ctx.exec_fn(ctx.method('RoomNode', 'read'), [Ref(Cell(Opaque('connection'))), Ref(Cell(deref(w.field(w.field(rn, 'RoomNode', 'node').v, 'Node', 'id').v)))])
    finally:
        for k in hooks:
            ctx.call_hooks.pop(k, None)
    if res.variant != 0 or res.fields[0].v.variant != 1:
        raise Inconclusive('RoomNode::read did not return the room although its row is stored')
    return res.fields[0].v.fields[0].v


def load_query_directions(ctx):
    """{list name: dict(direction='asc'|'desc'|None, filters=[(field, literal)])} read from the LOAD_QUERY constant of the current tree.
    Only order_by(mdate ..) and `field = literal` filters are understood; anything else makes the check inconclusive."""
    sc = ctx.index.simple_consts.get('LOAD_QUERY')
    if not sc:
        raise Inconclusive('LOAD_QUERY not found')
    from mirsym.interp import _unescape
    from mirsym.mir import split_top, match_close
    text = _unescape(next(iter(sc))[1].strip('"')).decode()
    out = {}
    for name in ('admin', 'rights', 'users', 'user_admin'):
        m = re.search(r'\b%s\s*(\(|\{)' % name, text)
        if not m:
            raise Inconclusive('LOAD_QUERY no longer selects the list %s' % name)
        spec = dict(direction=None, filters=[])
        if m.group(1) == '(':
            j = match_close(text, m.end() - 1)
            inner = text[m.end():j]
            for tok in split_top(inner, ',', angle=False):
                tok = tok.strip()
                if not tok:
                    continue
                mo = re.fullmatch(r'order_by\s*\(\s*mdate\s*(asc|desc)?\s*\)', tok)
                mf = re.fullmatch(r'(\w+)\s*=\s*(true|false|-?\d+|"[^"]*")', tok)
                if mo:
                    spec['direction'] = mo.group(1) or 'asc'
                elif mf:
                    spec['filters'].append((mf.group(1), mf.group(2)))
                else:
                    raise Inconclusive('LOAD_QUERY: parameter %r of list %s is not understood by the reload model' % (tok, name))
        out[name] = spec
    return out


def filtered(ctx, entries, filters, kind):
    """apply the `field = literal` filters of LOAD_QUERY to the entries (forks on symbolic flags)"""
    out = []
    for entry in entries:
        keep = True
        for fld, lit in filters:
            if kind == 'user' and fld == 'enabled' and lit in ('true', 'false'):
                cond = zb(entry[2]) if lit == 'true' else znot(zb(entry[2]))
            elif kind == 'right' and fld in ('mutate_self', 'mutate_all') and lit in ('true', 'false'):
                v = entry[2] if fld == 'mutate_self' else entry[3]
                cond = zb(v) if lit == 'true' else znot(zb(v))
            else:
                raise Inconclusive('LOAD_QUERY filter %s = %s is not understood by the reload model' % (fld, lit))
            if not ctx.branch(cond):
                keep = False
                break
        if keep:
            out.append(entry)
    return out


def ordered(ctx, entries, direction, date_of):
    """entries in the order SQL `order_by(mdate <direction>)` returns them: a stable sort by the symbolic date (ties keep insertion order)"""
    if direction is None:
        return list(entries)
    out = []
    for x in entries:
        pos = len(out)
        while pos > 0:
            a, b = date_of(out[pos - 1]), date_of(x)
            before = (a.z() > b.z()) if direction == 'asc' else (a.z() < b.z())      # out[pos-1] must come after x
            if ctx.branch(before):
                pos -= 1
            else:
                break
        out.insert(pos, x)
    return out


def reload_json(ctx, w, ev):
    dirs = load_query_directions(ctx)

    def idstr(uid, tag):
        s = w.atom(tag, None, 'str')
        ctx.add(z3.And(B64_OK(s.atom), B64_DEC(s.atom) == uid.as_atom(), V.LEN_FN(B64_DEC(s.atom)) == 16))
        return s

    def user_obj(k, d, e, tag):
        ks = w.atom(tag + '_b64', None, 'str')
        ctx.add(z3.And(B64_OK(ks.atom), B64_DEC(ks.atom) == k.as_atom()))
        return jv('obj', {'mdate': Cell(jv('int', d)), 'verif_key': Cell(jv('str', ks)), 'enabled': Cell(jv('bool', e))})

    def arr(items):
        return jv('arr', VecV([Cell(x) for x in items]))
    admins = [user_obj(k, d, e, 'adm%d' % i) for i, (k, d, e) in enumerate(ordered(ctx, filtered(ctx, ev.admins, dirs['admin']['filters'], 'user'), dirs['admin']['direction'], lambda t: t[1]))]
    auths = []
    for gi, ge in enumerate(ev.groups):
        rights = [jv('obj', {'mdate': Cell(jv('int', d)), 'entity': Cell(jv('str', en)), 'mutate_self': Cell(jv('bool', ms)), 'mutate_all': Cell(jv('bool', ma))})
                  for (en, d, ms, ma) in ordered(ctx, filtered(ctx, ge.rights, dirs['rights']['filters'], 'right'), dirs['rights']['direction'], lambda t: t[1])]
        users = [user_obj(k, d, e, 'g%d_usr%d' % (gi, i)) for i, (k, d, e) in enumerate(ordered(ctx, filtered(ctx, ge.users, dirs['users']['filters'], 'user'), dirs['users']['direction'], lambda t: t[1]))]
        uads = [user_obj(k, d, e, 'g%d_uad%d' % (gi, i)) for i, (k, d, e) in enumerate(ordered(ctx, filtered(ctx, ge.user_admins, dirs['user_admin']['filters'], 'user'), dirs['user_admin']['direction'], lambda t: t[1]))]
        gm = w.i64('g%d_mdate' % gi)
        ge.row_mdate = gm            # the date of the group row itself (its last modification)
        auths.append(jv('obj', {'id': Cell(jv('str', idstr(ge.id, 'g%d_idstr' % gi))), 'mdate': Cell(jv('int', gm)),
                                'rights': Cell(arr(rights)), 'users': Cell(arr(users)), 'user_admin': Cell(arr(uads))}))
    room = jv('obj', {'id': Cell(jv('str', idstr(ev.id, 'room_idstr'))), 'mdate': Cell(jv('int', w.i64('room_mdate'))), 'room_id': Cell(jv('null')),
                      'admin': Cell(arr(admins)), 'authorisations': Cell(arr(auths))})
    return jv('obj', {'sys.Room': Cell(arr([room]))})


def decisions_equal(ctx, w, room_a, room_b, prefer=None, prefer_last=None):
    """∀ key, entity, date, right: the two rooms decide alike (can / is_admin / is_user_valid_at); returns a model of a difference or None"""
    key = w.atom('q_key', KEYS, 'bytes', n=33)
    ent = w.atom('q_entity', ENTS, 'str')
    date = w.i64('q_date')
    rt = w.src.enum_variants('RightType')
    diffs = []
    for vn, disc, _ in rt:
        right = Enum('RightType', disc, vn, [])
        ca = ctx.call(ctx.method('Room', 'can'), [Ref(room_a), Ref(Cell(key)), ent, date, Ref(Cell(right))])
        cb = ctx.call(ctx.method('Room', 'can'), [Ref(room_b), Ref(Cell(key)), ent, date, Ref(Cell(right))])
        diffs.append(('can:' + vn, zb(ca) != zb(cb)))
    for fn in ('is_admin', 'is_user_valid_at'):
        ca = ctx.call(ctx.method('Room', fn), [Ref(room_a), Ref(Cell(key)), date])
        cb = ctx.call(ctx.method('Room', fn), [Ref(room_b), Ref(Cell(key)), date])
        diffs.append((fn, zb(ca) != zb(cb)))
    for label, d in diffs:
        m = ctx.check_sat(d)
        if m is not None:
            if prefer is not None:
                # a witness the public API can replay: the local user asks about itself, about entity E
                m2 = ctx.check_sat(zand(d, prefer, seq(key, ADMIN), seq(ent, S(lit='E')), date.z() > prefer_last.z() if prefer_last is not None else True))
                if m2 is None:
                    # any moment of the history: the native replay compares the rebuilt rooms around every entry date
                    m2 = ctx.check_sat(zand(d, prefer))
                if m2 is not None:
                    return label, m2, dict(key=key, entity=ent, date=date, preferred=True)
            return label, m, dict(key=key, entity=ent, date=date)
    return None, None, None


def api_replayable(ev):
    """extra constraints under which the history can be performed through the public API by the local user K1:
    K1 is the first admin and never disabled, and all dates are strictly increasing in creation order"""
    cs = []
    for i, (k, d, e) in enumerate(ev.admins):
        if k is ADMIN or k.lit == ADMIN.lit:
            cs.append(zb(e))
    if not ev.admins or ev.admins[0][0].lit != ADMIN.lit:
        cs.append(z3.BoolVal(False))
    # the API creates the entries one after the other: admins, users, user admins, rights
    seq_dates = [d for (_, d, _) in ev.admins]
    for ge in ev.groups:
        seq_dates += [d for (_, d, _) in ge.users] + [d for (_, d, _) in ge.user_admins] + [d for (_, d, _, _) in ge.rights]
    for a, b in zip(seq_dates, seq_dates[1:]):
        cs.append(a.z() < b.z())
    ev.last_date = seq_dates[-1] if seq_dates else None
    # every mutation of a group re-dates the group row: through the API it carries the date of the group's last entry
    for ge in ev.groups:
        gd = [d for (_, d, _) in ge.users] + [d for (_, d, _) in ge.user_admins] + [d for (_, d, _, _) in ge.rights]
        if gd and getattr(ge, 'row_mdate', None) is not None:
            cs.append(ge.row_mdate.z() == gd[-1].z())
    return zand(*cs)


def explore(ctx, shape, tier, report):
    h = histories(tier)[shape['history']]
    which = shape['path']

    def path(ctx):
        w = World(ctx)
        ev = make_events(w, h)
        live = live_room(ctx, w, ev)           # PathEnd when the history itself is not acceptable live
        # an authorised history: every entry was created by the admin K1 while K1 was an enabled admin
        dates = [d for (_, d, _) in ev.admins]
        for ge in ev.groups:
            dates += [d for (_, d, _) in ge.users] + [d for (_, d, _) in ge.user_admins] + [d for (_, d, _, _) in ge.rights]
        ctx.assume(zand(*[is_admin(ev, ADMIN, d) for d in dates]))
        info = dict(shape=shape, ev=ev, history=h)
        try:
            if which == 'import':
                rn = build_room_node(ctx, w, ev)
                # what is exported is what the real read functions assemble from those rows (which label feeds which list, which entity each row is read as)
                rn = read_export(ctx, w, rn)
                res = ctx.exec_fn(ctx.func('prepare_new_room'), [Ref(Cell(rn))])
                if res.variant != 0:
                    report.path(False)
                    report.violation(ctx, ctx.check_sat(api_replayable(ev)) or ctx.check_sat(True), 'import-refuses-own-export', info)
                    return
                r2 = ctx.exec_fn(ctx.method('RoomNode', 'parse'), [Ref(Cell(rn))])
                if r2.variant != 0:
                    report.path(False)
                    report.violation(ctx, ctx.check_sat(api_replayable(ev)) or ctx.check_sat(True), 'import-refuses-own-export', info)
                    return
                other = Cell(r2.fields[0].v)
                report.witness('import-ok')
                report.witness('reload-ok')
            else:
                tree = reload_json(ctx, w, ev)
                ra = w.struct('RoomAuthorisations', signing_key=w.signing_key(ADMIN), rooms=MapV(), max_node_size=w.u64('max'))
                rac = Cell(ra)
                res = ctx.exec_fn(ctx.method('RoomAuthorisations', 'load_json'), [Ref(rac, True), S(label=('jsontree', tree), text=True)])
                if res.variant != 0:
                    report.path(False)
                    report.violation(ctx, ctx.check_sat(api_replayable(ev)) or ctx.check_sat(True), 'reload-refuses-own-data', info)
                    return
                rooms = deref(w.field(ra, 'RoomAuthorisations', 'rooms').v)
                if len(rooms.entries) != 1:
                    report.violation(ctx, ctx.check_sat(True), 'reload-loses-the-room', info)
                    return
                other = rooms.entries[0][1]
                report.witness('reload-ok')
                report.witness('import-ok')
        except Panic as p:
            report.panic(ctx, w, p, info)
            return
        report.path(True)
        pref = api_replayable(ev)
        label, m, q = decisions_equal(ctx, w, live, other, pref, getattr(ev, 'last_date', None))
        if m is not None:
            info['query'] = q
            info['difference'] = label
            report.violation(ctx, m, '%s-decides-differently' % which, info)
        else:
            report.witness('decisions-equal')

    ctx.explore(path)


def scenario(ctx, m, kind, info):
    c = Concretizer(m)
    ev = info['ev']
    sc = dict(kind='room_three_paths', property='C10', path=info['shape']['path'], room=c.room(ev), violation=kind)
    if kind == 'panic':
        sc['expect'] = dict(result='panic')
        return sc
    if kind in ('import-refuses-own-export',):
        sc['expect'] = dict(import_ok=False)
    elif kind in ('reload-refuses-own-data', 'reload-loses-the-room'):
        sc['expect'] = dict(reload_ok=False)
    else:
        q = info.get('query')
        sc['query'] = dict(key=c.atom(q['key']), entity=c.atom(q['entity']), date=c.int(q['date']), what=info['difference'])
        sc['expect'] = dict(decisions_differ=True)
        # natively the comparison needs a successful reload: only single-entry histories can show it through the API
        sc['preferred'] = bool(q.get('preferred'))
    sc['what'] = '%s (history %s)' % (kind, info['history'])
    sc['signature'] = kind + (':' + info['difference'].split(':')[0] if 'difference' in info else '')
    return sc
