"""Source-level facts the textual MIR does not carry: field order of structs, variant order of
enums, which type/trait an `<impl at file:line:col: line:col>` block belongs to, simple constants.
Read from /repo/src on every run (regex level; the crate has no macros that define types)."""
import os
import re


def strip_comments(src):
    out = []
    i = 0
    n = len(src)
    while i < n:
        c = src[i]
        if c == '"':
            j = i + 1
            while j < n:
                if src[j] == '\\':
                    j += 2
                    continue
                if src[j] == '"':
                    break
                j += 1
            out.append(src[i:j + 1])
            i = j + 1
            continue
        if src.startswith('//', i):
            j = src.find('\n', i)
            if j == -1:
                j = n
            out.append(' ' * (j - i))
            i = j
            continue
        if src.startswith('/*', i):
            j = src.find('*/', i)
            j = n if j == -1 else j + 2
            out.append(re.sub(r'[^\n]', ' ', src[i:j]))
            i = j
            continue
        out.append(c)
        i += 1
    return ''.join(out)


def strip_attrs(src):
    """blank out #[...] / #![...] attributes (string aware)"""
    out = []
    i = 0
    n = len(src)
    while i < n:
        if src[i] == '"':
            j = i + 1
            while j < n:
                if src[j] == '\\':
                    j += 2
                    continue
                if src[j] == '"':
                    break
                j += 1
            out.append(src[i:j + 1])
            i = j + 1
            continue
        if src[i] == '#' and i + 1 < n and (src[i + 1] == '[' or (src[i + 1] == '!' and i + 2 < n and src[i + 2] == '[')):
            k = src.index('[', i)
            j = _match_brace(src, k, '[', ']')
            if j == -1:
                j = k
            out.append(re.sub(r'[^\n]', ' ', src[i:j + 1]))
            i = j + 1
            continue
        out.append(src[i])
        i += 1
    return ''.join(out)


def _match_brace(s, i, o='{', c='}'):
    depth = 0
    n = len(s)
    while i < n:
        ch = s[i]
        if ch == '"':
            j = i + 1
            while j < n:
                if s[j] == '\\':
                    j += 2
                    continue
                if s[j] == '"':
                    break
                j += 1
            i = j + 1
            continue
        if ch == o:
            depth += 1
        elif ch == c:
            depth -= 1
            if depth == 0:
                return i
        i += 1
    return -1


def _split_fields(body):
    parts = []
    depth = 0
    last = 0
    for i, ch in enumerate(body):
        if ch in '<([{':
            depth += 1
        elif ch in '>)]}':
            if ch == '>' and i > 0 and body[i - 1] in '-=':
                continue
            depth -= 1
        elif ch == ',' and depth == 0:
            parts.append(body[last:i])
            last = i + 1
    parts.append(body[last:])
    return [p.strip() for p in parts if p.strip()]


class SrcInfo:
    def __init__(self, root):
        self.root = root
        self.structs = {}    # name -> [field names]   (tuple structs: ['0','1',..])
        self.struct_types = {}  # name -> [field type strings]
        self.enums = {}      # name -> [(variant, discr, [field names])]
        self.files = {}
        self.consts = {}
        self.impl_cache = {}
        for dp, dn, fn in os.walk(os.path.join(root, 'src')):
            for f in fn:
                if f.endswith('.rs'):
                    p = os.path.join(dp, f)
                    rel = os.path.relpath(p, root)
                    with open(p) as fh:
                        raw = fh.read()
                    self.files[rel] = (raw, strip_attrs(strip_comments(raw)))
        for rel, (raw, src) in self.files.items():
            if rel.endswith('_test.rs'):
                continue
            self._scan(rel, src)

    def _scan(self, rel, src):
        for m in re.finditer(r'\bstruct\s+(\w+)\s*(<[^{(;]*>)?\s*(\{|\(|;)', src):
            name = m.group(1)
            if m.group(3) == ';':
                self._add_struct(name, [], [], rel)
                continue
            i = m.end() - 1
            if m.group(3) == '{':
                j = _match_brace(src, i)
                fields = []
                types = []
                for part in _split_fields(src[i + 1:j]):
                    part = re.sub(r'#\[[^\]]*\]', '', part).strip()
                    mm = re.match(r'(pub(\([^)]*\))?\s+)?(\w+)\s*:\s*(.*)$', part, re.S)
                    if mm:
                        fields.append(mm.group(3))
                        types.append(' '.join(mm.group(4).split()))
                self._add_struct(name, fields, types, rel)
            else:
                j = _match_brace(src, i, '(', ')')
                parts = _split_fields(src[i + 1:j])
                self._add_struct(name, [str(k) for k in range(len(parts))], [re.sub(r'^pub\s+', '', p) for p in parts], rel)
        for m in re.finditer(r'\benum\s+(\w+)\s*(<[^{]*>)?\s*\{', src):
            name = m.group(1)
            i = m.end() - 1
            j = _match_brace(src, i)
            variants = []
            nxt = 0
            for part in _split_fields(src[i + 1:j]):
                part = re.sub(r'#\[[^\]]*\]', '', part, flags=re.S).strip()
                mm = re.match(r'(\w+)\s*(.*)$', part, re.S)
                if not mm:
                    continue
                vname = mm.group(1)
                rest = mm.group(2).strip()
                fields = []
                disc = nxt
                if rest.startswith('('):
                    k = _match_brace(rest, 0, '(', ')')
                    fields = [str(x) for x in range(len(_split_fields(rest[1:k])))]
                    rest = rest[k + 1:].strip()
                elif rest.startswith('{'):
                    k = _match_brace(rest, 0)
                    for fp in _split_fields(rest[1:k]):
                        fm = re.match(r'(\w+)\s*:', fp)
                        if fm:
                            fields.append(fm.group(1))
                    rest = rest[k + 1:].strip()
                if rest.startswith('='):
                    try:
                        disc = int(rest[1:].strip(), 0)
                    except ValueError:
                        pass
                variants.append((vname, disc, fields))
                nxt = disc + 1
            self.enums.setdefault(name, []).append((rel, variants))
        for m in re.finditer(r'\bconst\s+(\w+)\s*:\s*([^=;]+?)\s*=\s*([^;]+);', src):
            self.consts.setdefault(m.group(1), []).append((rel, m.group(2).strip(), m.group(3).strip()))

    def _add_struct(self, name, fields, types, rel):
        self.structs.setdefault(name, []).append((rel, fields, types))

    # ------------------------------------------------------------------ queries
    @staticmethod
    def last_seg(path):
        p = path.strip()
        # drop generics
        out = []
        depth = 0
        for ch in p:
            if ch == '<':
                depth += 1
            elif ch == '>':
                depth -= 1
            elif depth == 0:
                out.append(ch)
        p = ''.join(out)
        return p.rsplit('::', 1)[-1].strip()

    def _pick(self, table, path):
        name = self.last_seg(path)
        cands = table.get(name)
        if not cands:
            return None
        if len(cands) == 1:
            return cands[0]
        # disambiguate by module path
        segs = [x for x in re.sub(r'<.*', '', path).split('::')[:-1] if x and x != 'crate']
        if segs:
            for c in cands:
                rel = c[0]
                for k in range(len(segs)):
                    tail = '/'.join(segs[k:])
                    if rel in ('src/%s.rs' % tail, 'src/%s/mod.rs' % tail) or rel.endswith('/%s.rs' % tail) or rel.endswith('/%s/mod.rs' % tail):
                        return c
        if not segs and '::' not in re.sub(r'<.*', '', path):
            # the MIR dump prints module paths for everything but items of the crate root
            for c in cands:
                if c[0] == 'src/lib.rs':
                    return c
        raise KeyError('ambiguous type %s: %s' % (path, [c[0] for c in cands]))

    def struct_fields(self, path):
        c = self._pick(self.structs, path)
        return None if c is None else c[1]

    def struct_field_types(self, path):
        c = self._pick(self.structs, path)
        return None if c is None else c[2]

    def enum_variants(self, path):
        c = self._pick(self.enums, path)
        return None if c is None else c[1]

    def enum_variants_for(self, path, variant):
        """like enum_variants, but an ambiguous type name is resolved by the variant it must contain"""
        try:
            ev = self.enum_variants(path)
            if ev is None or any(v[0] == variant for v in ev):
                return ev
            raise KeyError('variant %s not in the enum picked for %s' % (variant, path))
        except KeyError:
            cands = [c for c in self.enums.get(self.last_seg(path), []) if any(v[0] == variant for v in c[1])]
            if len(cands) == 1:
                return cands[0][1]
            if len(cands) > 1 and len(set(tuple((v[0], v[1], tuple(v[2])) for v in c[1] if v[0] == variant) for c in cands)) == 1:
                # same discriminant and arity in every candidate: any of them gives the same value
                idxs = set([v[1] for v in c[1] if v[0] == variant][0] for c in cands)
                if len(idxs) == 1:
                    return cands[0][1]
            raise

    def impl_info(self, span):
        """span = 'src/database/room.rs:35:1: 35:10' -> (self_type_last_seg, trait_last_seg or None)"""
        if span in self.impl_cache:
            return self.impl_cache[span]
        m = re.match(r'(.*?):(\d+):(\d+): (\d+):(\d+)$', span)
        res = (None, None)
        if m and m.group(1) in self.files:
            raw, src = self.files[m.group(1)]
            lines = raw.split('\n')
            l1, c1, l2, c2 = int(m.group(2)), int(m.group(3)), int(m.group(4)), int(m.group(5))
            if l1 == l2:
                text = lines[l1 - 1][c1 - 1:c2 - 1]
            else:
                text = '\n'.join([lines[l1 - 1][c1 - 1:]] + lines[l1:l2 - 1] + [lines[l2 - 1][:c2 - 1]])
            text = ' '.join(text.split())
            if text.startswith('impl'):
                t = re.sub(r'^impl\s*(<[^>]*>)?\s*', '', text)
                if ' for ' in t:
                    tr, ty = t.split(' for ', 1)
                    res = (self.last_seg(ty), self.last_seg(tr))
                else:
                    res = (self.last_seg(t), None)
            else:
                # derive: trait = text; type = next struct/enum after this line
                ty = None
                for k in range(l1 - 1, min(len(lines), l1 + 40)):
                    mm = re.search(r'\b(struct|enum)\s+(\w+)', lines[k])
                    if mm:
                        ty = mm.group(2)
                        break
                res = (ty, self.last_seg(text))
        self.impl_cache[span] = res
        return res
