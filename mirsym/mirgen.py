"""Produce (and cache by content hash) the MIR dump of /repo's *current working tree*."""
import fcntl
import hashlib
import os
import subprocess
import time


def tree_hash(repo):
    h = hashlib.sha256()
    files = []
    for dp, dn, fn in os.walk(os.path.join(repo, 'src')):
        dn.sort()
        for f in sorted(fn):
            files.append(os.path.join(dp, f))
    for extra in ('Cargo.toml', 'Cargo.lock', 'build.rs'):
        p = os.path.join(repo, extra)
        if os.path.exists(p):
            files.append(p)
    for p in files:
        h.update(os.path.relpath(p, repo).encode())
        h.update(b'\0')
        with open(p, 'rb') as fh:
            h.update(fh.read())
        h.update(b'\0')
    return h.hexdigest()[:20]


def ensure_mir(repo, vcache, verbose=True):
    os.makedirs(os.path.join(vcache, 'mir'), exist_ok=True)
    th = tree_hash(repo)
    out = os.path.join(vcache, 'mir', th + '.mir')
    if os.path.exists(out) and os.path.getsize(out) > 1000:
        return out, th
    lock = open(os.path.join(vcache, 'mir', '.lock'), 'w')
    fcntl.flock(lock, fcntl.LOCK_EX)
    try:
        if os.path.exists(out) and os.path.getsize(out) > 1000:
            return out, th
        env = dict(os.environ)
        env['CARGO_TARGET_DIR'] = os.path.join(vcache, 'target-mir')
        env['CARGO_NET_OFFLINE'] = 'true'
        env.pop('RUSTFLAGS', None)
        t0 = time.time()
        subprocess.run(['cargo', '+nightly', 'clean', '--offline', '-p', 'discret'], cwd=repo, env=env,
                       stdout=subprocess.DEVNULL, stderr=subprocess.DEVNULL)
        tmp = out + '.tmp'
        with open(tmp, 'w') as fh:
            p = subprocess.run(['cargo', '+nightly', 'rustc', '--offline', '--lib', '--', '-Zunpretty=mir',
                                '-C', 'debug-assertions=off', '-C', 'overflow-checks=on'],
                               cwd=repo, env=env, stdout=fh, stderr=subprocess.PIPE, text=True)
        if p.returncode != 0 or os.path.getsize(tmp) < 1000:
            raise RuntimeError('MIR dump failed (rc=%d): %s' % (p.returncode, p.stderr[-2000:]))
        os.replace(tmp, out)
        if verbose:
            print('[mirgen] MIR of tree %s regenerated in %.0fs' % (th, time.time() - t0), flush=True)
        # keep the cache small: drop dumps older than the 6 most recent
        dumps = sorted((os.path.join(vcache, 'mir', f) for f in os.listdir(os.path.join(vcache, 'mir')) if f.endswith('.mir')),
                       key=os.path.getmtime)
        for old in dumps[:-6]:
            try:
                os.remove(old)
            except OSError:
                pass
        return out, th
    finally:
        fcntl.flock(lock, fcntl.LOCK_UN)
        lock.close()


if __name__ == '__main__':
    import sys
    print(ensure_mir(sys.argv[1] if len(sys.argv) > 1 else '/repo', os.environ.get('VCACHE', '/var/cache/discret-verif')))
