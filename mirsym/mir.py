"""Parser for rustc's textual MIR (`-Zunpretty=mir`).

The dump is indexed by item header first (cheap); bodies are parsed on first use.
Only the constructs that occur in the crate's own functions are supported; anything
else raises MirParseError so that a check becomes *inconclusive*, never silently wrong.
"""
import re
import hashlib


class MirParseError(Exception):
    pass


# --------------------------------------------------------------------------- helpers

OPEN = {'(': ')', '[': ']', '{': '}', '<': '>'}
CLOSE = {')', ']', '}', '>'}


def scan(s, i=0, stop=None, angle=True):
    """Yield (index, char) for characters of s at bracket depth 0, skipping string/char
    literals.  `->`/`=>` are not treated as brackets."""
    depth = 0
    n = len(s)
    while i < n:
        c = s[i]
        if c == '"':
            # string literal
            j = i + 1
            while j < n:
                if s[j] == '\\':
                    j += 2
                    continue
                if s[j] == '"':
                    break
                j += 1
            if depth == 0:
                yield i, '"'
            i = j + 1
            continue
        if c == "'" and i + 2 < n:
            # char literal 'x' or '\n' or lifetime 'a
            if s[i + 1] == '\\':
                j = s.find("'", i + 2)
                if j != -1 and j - i <= 12:
                    i = j + 1
                    continue
            elif i + 2 < n and s[i + 2] == "'":
                i += 3
                continue
        if c in '([{' or (angle and c == '<'):
            if depth == 0:
                yield i, c
            depth += 1
        elif c in ')]}':
            depth -= 1
            if depth == 0:
                yield i, c
            if depth < 0:
                return
        elif angle and c == '>':
            if i > 0 and s[i - 1] in '-=':
                pass
            else:
                depth -= 1
                if depth == 0:
                    yield i, c
                if depth < 0:
                    return
        elif depth == 0:
            yield i, c
        i += 1


def find_top(s, sub, start=0, angle=True):
    """index of first occurrence of `sub` at depth 0 (not inside literals), or -1"""
    L = len(sub)
    depth_chars = None
    for i, c in scan(s, start, angle=angle):
        if c == sub[0] and s.startswith(sub, i):
            # make sure we are at depth 0 *before* this char: scan yields openers at depth 0 too
            return i
    return -1


def split_top(s, sep=',', angle=True):
    """split s at top-level separators"""
    out = []
    last = 0
    depth = 0
    i = 0
    n = len(s)
    while i < n:
        c = s[i]
        if c == '"':
            j = i + 1
            while j < n:
                if s[j] == '\\':
                    j += 2
                    continue
                if s[j] == '"':
                    break
                j += 1
            i = j + 1
            continue
        if c == "'":
            if i + 1 < n and s[i + 1] == '\\':
                j = s.find("'", i + 2)
                if j != -1 and j - i <= 12:
                    i = j + 1
                    continue
            elif i + 2 < n and s[i + 2] == "'":
                i += 3
                continue
        if c in '([{' or (angle and c == '<'):
            depth += 1
        elif c in ')]}':
            depth -= 1
        elif angle and c == '>' and not (i > 0 and s[i - 1] in '-='):
            depth -= 1
        elif depth == 0 and s.startswith(sep, i):
            out.append(s[last:i].strip())
            i += len(sep)
            last = i
            continue
        i += 1
    tail = s[last:].strip()
    if tail or out:
        out.append(tail)
    return out


def match_close(s, i):
    """s[i] is an opening bracket; return index of matching closer"""
    depth = 0
    n = len(s)
    j = i
    while j < n:
        c = s[j]
        if c == '"':
            k = j + 1
            while k < n:
                if s[k] == '\\':
                    k += 2
                    continue
                if s[k] == '"':
                    break
                k += 1
            j = k + 1
            continue
        if c == "'":
            if j + 1 < n and s[j + 1] == '\\':
                k = s.find("'", j + 2)
                if k != -1 and k - j <= 12:
                    j = k + 1
                    continue
            elif j + 2 < n and s[j + 2] == "'":
                j += 3
                continue
        if c in '([{<':
            depth += 1
        elif c in ')]}':
            depth -= 1
            if depth == 0:
                return j
        elif c == '>' and not (j > 0 and s[j - 1] in '-='):
            depth -= 1
            if depth == 0:
                return j
        j += 1
    raise MirParseError('unbalanced: ' + s[i:i + 80])


# --------------------------------------------------------------------------- places / operands

class Place:
    __slots__ = ('local', 'projs')

    def __init__(self, local, projs=()):
        self.local = local
        self.projs = tuple(projs)

    def __repr__(self):
        return 'P(_%d%s)' % (self.local, ''.join('.' + str(p) for p in self.projs))


_local_re = re.compile(r'_(\d+)')


def parse_place(s):
    s = s.strip()
    p, rest = _parse_place_prefix(s)
    if rest.strip():
        raise MirParseError('trailing in place: %r' % s)
    return p


def _parse_place_prefix(s):
    """parse a place at the start of s; returns (Place, rest)"""
    s = s.lstrip()
    if s.startswith('('):
        j = match_close(s, 0)
        inner = s[1:j]
        rest = s[j + 1:]
        if inner.startswith('*'):
            base = parse_place(inner[1:])
            pl = Place(base.local, base.projs + (('deref',),))
        else:
            # (P.N: TYPE)  or (P as Variant)
            k = find_top(inner, ' as ')
            # field form has ": " at top level after ".N"
            m = None
            base_s, rest_inner = _place_head(inner)
            ri = rest_inner
            if ri.startswith('.'):
                mm = re.match(r'\.(\d+): ', ri)
                if not mm:
                    raise MirParseError('field proj: %r' % inner)
                ty = ri[mm.end():]
                pl = Place(base_s.local, base_s.projs + (('field', int(mm.group(1)), ty),))
            elif ri.startswith(' as '):
                pl = Place(base_s.local, base_s.projs + (('downcast', ri[4:].strip()),))
            else:
                raise MirParseError('place paren: %r' % inner)
    else:
        m = _local_re.match(s)
        if not m:
            raise MirParseError('place: %r' % s)
        pl = Place(int(m.group(1)))
        rest = s[m.end():]
    # suffix index projections
    while rest.startswith('['):
        j = match_close(rest, 0)
        idx = rest[1:j]
        rest = rest[j + 1:]
        m = _local_re.fullmatch(idx.strip())
        if m:
            pl = Place(pl.local, pl.projs + (('index', int(m.group(1))),))
            continue
        m = re.fullmatch(r'(-?)(\d+) of (\d+)', idx.strip())
        if m:
            pl = Place(pl.local, pl.projs + (('constindex', int(m.group(2)), int(m.group(3)), m.group(1) == '-'),))
            continue
        m = re.fullmatch(r'(\d+):(-?)(\d*)', idx.strip())
        if m:
            pl = Place(pl.local, pl.projs + (('subslice', int(m.group(1)), m.group(3), m.group(2) == '-'),))
            continue
        raise MirParseError('index proj: %r' % idx)
    return pl, rest


def _place_head(inner):
    """inside parens: parse the base place, return (Place, rest)"""
    return _parse_place_prefix(inner)


def parse_operand(s):
    s = s.strip()
    if s.startswith('no_retag '):
        s = s[9:]
    if s.startswith('copy '):
        return ('copy', parse_place(s[5:]))
    if s.startswith('move '):
        return ('move', parse_place(s[5:]))
    if s.startswith('const '):
        return ('const', s[6:].strip())
    if re.match(r'[A-Za-z<_]', s) and not s.startswith('_'):
        return ('fnitem', s)
    raise MirParseError('operand: %r' % s)


BINOPS = {'Add', 'Sub', 'Mul', 'Div', 'Rem', 'BitXor', 'BitAnd', 'BitOr', 'Shl', 'Shr', 'Eq', 'Lt', 'Le',
          'Ne', 'Ge', 'Gt', 'Cmp', 'Offset', 'AddWithOverflow', 'SubWithOverflow', 'MulWithOverflow',
          'AddUnchecked', 'SubUnchecked', 'MulUnchecked', 'ShlUnchecked', 'ShrUnchecked'}
UNOPS = {'Not', 'Neg', 'PtrMetadata'}

_binop_re = re.compile(r'(\w+)\(')


def parse_rvalue(s):
    s = s.strip()
    if s.startswith('no_retag '):
        s = s[9:]
    if s.startswith(('copy ', 'move ', 'const ')):
        # may be a cast: "OPERAND as TYPE (Kind)"
        k = find_top(s, ' as ')
        if k != -1 and s.endswith(')'):
            op = parse_operand(s[:k])
            tail = s[k + 4:]
            j = tail.rfind(' (')
            return ('cast', op, tail[:j].strip(), tail[j + 2:-1])
        return ('use', parse_operand(s))
    if s.startswith('&'):
        t = s[1:]
        if t.startswith('raw const '):
            return ('ref', 'rawconst', parse_place(t[10:]))
        if t.startswith('raw mut '):
            return ('ref', 'rawmut', parse_place(t[8:]))
        if t.startswith('mut '):
            return ('ref', 'mut', parse_place(t[4:]))
        if t.startswith('fake shallow '):
            return ('ref', 'shared', parse_place(t[13:]))
        if t.startswith('fake '):
            return ('ref', 'shared', parse_place(t[5:]))
        return ('ref', 'shared', parse_place(t))
    m = _binop_re.match(s)
    if m and s.endswith(')'):
        name = m.group(1)
        inner = s[m.end():-1]
        if name in BINOPS:
            a, b = split_top(inner)
            return ('bin', name, parse_operand(a), parse_operand(b))
        if name in UNOPS:
            return ('un', name, parse_operand(inner))
        if name == 'discriminant':
            return ('disc', parse_place(inner))
        if name == 'Len':
            return ('len', parse_place(inner))
        if name == 'CopyForDeref':
            return ('use', ('copy', parse_place(inner)))
        if name in ('SizeOf', 'AlignOf'):
            return ('nullop', name, inner)
        if name == 'ShallowInitBox':
            a, b = split_top(inner)
            return ('box', parse_operand(a), b)
    if s.startswith('['):
        j = match_close(s, 0)
        inner = s[1:j]
        k = find_top(inner, '; ')
        if k != -1:
            return ('repeat', parse_operand(inner[:k]), inner[k + 2:].strip())
        return ('agg', 'array', None, [parse_operand(x) for x in split_top(inner) if x])
    if s.startswith('('):
        j = match_close(s, 0)
        if j == len(s) - 1:
            inner = s[1:j]
            parts = [x for x in split_top(inner) if x]
            return ('agg', 'tuple', None, [parse_operand(x) for x in parts])
    # aggregates: Path { f: op, .. } | Path(op, ..) | Path  (unit)
    return parse_aggregate(s)


def parse_aggregate(s):
    # closure / coroutine aggregate:  {closure@...} { a: op }   or {closure@...}
    if s.startswith('{'):
        j = match_close(s, 0)
        path = s[:j + 1]
        rest = s[j + 1:].strip()
    else:
        # path up to first top-level ' {' or '(' (angle aware)
        path = None
        for i, c in scan(s):
            if c == '{' and i > 0 and s[i - 1] == ' ':
                path = s[:i - 1]
                rest = s[i:]
                break
            if c == '(':
                path = s[:i]
                rest = s[i:]
                break
        if path is None:
            path, rest = s, ''
    if rest.startswith('{'):
        j = match_close(rest, 0)
        inner = rest[1:j].strip()
        fields = []
        for part in split_top(inner):
            if not part:
                continue
            k = part.find(': ')
            fields.append((part[:k].strip(), parse_operand(part[k + 2:])))
        return ('agg', 'struct', path, fields)
    if rest.startswith('('):
        j = match_close(rest, 0)
        inner = rest[1:j]
        return ('agg', 'tuplestruct', path, [parse_operand(x) for x in split_top(inner) if x])
    if rest == '':
        return ('agg', 'unit', path, [])
    raise MirParseError('rvalue: %r' % s)


# --------------------------------------------------------------------------- functions

class Block:
    __slots__ = ('stmts', 'term', 'cleanup', 'raw')

    def __init__(self):
        self.stmts = []
        self.term = None
        self.cleanup = False


class Func:
    def __init__(self, kind, name, args, ret, start, end, header):
        self.kind = kind
        self.name = name
        self.args = args      # [(local, type)]
        self.ret = ret
        self.start = start
        self.end = end
        self.header = header
        self.locals = None    # {n: type}
        self.blocks = None    # {n: Block}
        self.debug = {}

    def __repr__(self):
        return 'Func(%s)' % self.name


_target_re = re.compile(r'bb(\d+)')


def parse_targets(s):
    """'[return: bb1, unwind continue]' or 'bb3' or 'unwind continue' -> dict"""
    s = s.strip()
    out = {}
    if s.startswith('['):
        for part in split_top(s[1:-1]):
            if ': ' in part:
                k, v = part.split(': ', 1)
                m = _target_re.fullmatch(v.strip())
                out[k.strip()] = int(m.group(1)) if m else v.strip()
            else:
                # "unwind continue" / "unwind unreachable" / "unwind terminate(abi)"
                k, _, v = part.partition(' ')
                out[k] = v
    else:
        m = _target_re.fullmatch(s)
        if m:
            out['unwindonly'] = int(m.group(1))
        else:
            k, _, v = s.partition(' ')
            out[k] = v
    return out


def parse_statement(line):
    """returns ('stmt', ...) or ('term', ...)"""
    s = line.strip()
    if s.endswith(';'):
        s = s[:-1]
    if s.startswith('goto -> '):
        return ('term', ('goto', int(s[10:])))
    if s == 'return':
        return ('term', ('return',))
    if s == 'unreachable':
        return ('term', ('unreachable',))
    if s in ('resume', 'unwind resume', 'abort', 'unwind terminate', 'coroutine_drop') or s.startswith('unwind terminate'):
        return ('term', ('resume',))
    if s.startswith('switchInt('):
        j = match_close(s, 9)
        op = parse_operand(s[10:j])
        t = s[j + 1:].strip()
        assert t.startswith('-> ['), s
        cases = []
        otherwise = None
        for part in split_top(t[4:-1]):
            k, v = part.split(': ')
            bb = int(v.strip()[2:])
            if k == 'otherwise':
                otherwise = bb
            else:
                cases.append((int(k), bb))
        return ('term', ('switch', op, cases, otherwise))
    if s.startswith('drop('):
        j = match_close(s, 4)
        pl = parse_place(s[5:j])
        t = parse_targets(s[j + 1:].strip()[3:])
        return ('term', ('drop', pl, t.get('return')))
    if s.startswith('assert('):
        j = match_close(s, 6)
        inner = split_top(s[7:j])
        cond = inner[0]
        expected = True
        if cond.startswith('!'):
            expected = False
            cond = cond[1:]
        t = parse_targets(s[j + 1:].strip()[3:])
        return ('term', ('assert', parse_operand(cond), expected, inner[1] if len(inner) > 1 else '', t.get('success')))
    if s.startswith(('StorageLive(', 'StorageDead(', 'nop', 'FakeRead(', 'AscribeUserType(', 'Coverage',
                     'ConstEvalCounter', 'Retag(', 'PlaceMention(', 'Deinit(', 'BackwardIncompatibleDropHint')):
        return ('stmt', ('nop',))
    if s.startswith('assume('):
        return ('stmt', ('assume', parse_operand(s[7:-1])))
    if s.startswith('discriminant('):
        j = match_close(s, 12)
        pl = parse_place(s[13:j])
        return ('stmt', ('setdisc', pl, int(s[j + 1:].strip()[2:])))
    if s.startswith('yield('):
        j = match_close(s, 5)
        t = parse_targets(s[j + 1:].strip()[3:])
        return ('term', ('yield', parse_operand(s[6:j]), t))
    if s.startswith('copy_nonoverlapping('):
        raise MirParseError('copy_nonoverlapping')
    # assignment or call
    k = find_top(s, ' = ')
    if k == -1:
        raise MirParseError('statement: %r' % s)
    dest = parse_place(s[:k])
    rhs = s[k + 3:]
    arrow = find_top(rhs, ' -> ')
    if arrow == -1:
        return ('stmt', ('assign', dest, parse_rvalue(rhs)))
    # call terminator
    call = rhs[:arrow].strip()
    t = parse_targets(rhs[arrow + 4:])
    assert call.endswith(')'), s
    # find the '(' matching the final ')'
    depth = 0
    # walk from the end to find matching opener (parens only; literals are rare in callee part)
    j = _match_open_from_end(call)
    callee = call[:j].strip()
    args = [parse_operand(x) for x in split_top(call[j + 1:-1]) if x]
    if callee.startswith(('move ', 'copy ')):
        callee_v = ('operand', parse_operand(callee))
    else:
        callee_v = ('path', callee)
    return ('term', ('call', dest, callee_v, args, t.get('return')))


def _match_open_from_end(call):
    """index of '(' matching the last ')' of call; args may contain string literals"""
    # forward scan keeping a stack of '(' at angle-agnostic depth
    stack = []
    i = 0
    n = len(call)
    last_pair = None
    while i < n:
        c = call[i]
        if c == '"':
            k = i + 1
            while k < n:
                if call[k] == '\\':
                    k += 2
                    continue
                if call[k] == '"':
                    break
                k += 1
            i = k + 1
            continue
        if c == "'":
            if i + 1 < n and call[i + 1] == '\\':
                k = call.find("'", i + 2)
                if k != -1 and k - i <= 12:
                    i = k + 1
                    continue
            elif i + 2 < n and call[i + 2] == "'":
                i += 3
                continue
        if c == '(':
            stack.append(i)
        elif c == ')':
            o = stack.pop()
            if i == n - 1:
                return o
        i += 1
    raise MirParseError('call parens: %r' % call)


_header_re = re.compile(r'^(fn|const|static|static mut) ')


class MirModule:
    def __init__(self, path):
        self.path = path
        with open(path) as f:
            self.lines = f.read().split('\n')
        self.funcs = {}        # name -> Func
        self.by_short = {}     # last path segment -> [Func]
        self.allocs = {}
        self._static_index = None
        self._index()

    def static_literal(self, alloc, fn_name):
        """the string literal a `static NAME: &str = "..."` holds, for the static behind `allocN` as referenced from function fn_name; None if not resolvable"""
        import re as _re
        if self._static_index is None:
            allocs, statics = {}, {}
            for i, line in enumerate(self.lines):
                if line.startswith('alloc'):
                    m = _re.match(r'^(alloc\d+) \(static: (.*?), size', line)
                    if m:
                        allocs[m.group(1)] = m.group(2)
                elif line.startswith('static '):
                    m = _re.match(r'^static (?:mut )?(.*): &(?:\'static )?str = \{$', line)
                    if m:
                        for j in range(i + 1, min(i + 12, len(self.lines))):
                            mm = _re.match(r'^\s*_0 = const (".*");$', self.lines[j])
                            if mm:
                                statics[m.group(1)] = mm.group(1)
                                break
            self._static_index = (allocs, statics)
        allocs, statics = self._static_index
        path = allocs.get(alloc)
        if path is None:
            return None
        name = path.rsplit('::', 1)[-1]
        local = statics.get(fn_name + '::' + name)
        if local is not None:
            return local
        cands = set(v for k, v in statics.items() if k.endswith('::' + name) or k == name)
        return cands.pop() if len(cands) == 1 else None

    def _index(self):
        lines = self.lines
        i = 0
        n = len(lines)
        while i < n:
            line = lines[i]
            m = _header_re.match(line)
            if m and line.endswith('{'):
                start = i
                j = i + 1
                while j < n and lines[j] != '}':
                    j += 1
                self._add_header(m.group(1), line, start, j)
                i = j + 1
                continue
            i += 1

    def _add_header(self, kind, line, start, end):
        body = line[len(kind) + 1:-1].rstrip()
        if kind == 'fn':
            # NAME(ARGS) -> RET
            par = None
            for idx, c in scan(body):
                if c == '(':
                    par = idx
                    break
            if par is None:
                return
            name = body[:par]
            j = match_close(body, par)
            args_s = body[par + 1:j]
            rest = body[j + 1:].strip()
            ret = rest[3:].strip() if rest.startswith('->') else '()'
            args = []
            for a in split_top(args_s):
                if not a:
                    continue
                mm = re.match(r'_(\d+): (.*)$', a, re.S)
                args.append((int(mm.group(1)), mm.group(2)))
        else:
            # const NAME: TYPE =
            k = find_top(body, ': ')
            name = body[:k]
            ret = body[k + 2:].rstrip(' =').strip()
            args = []
        f = Func(kind, name, args, ret, start, end, line)
        self.funcs[name] = f
        short = name.rsplit('::', 1)[-1]
        self.by_short.setdefault(short, []).append(f)

    def body_hash(self, f):
        return hashlib.sha1('\n'.join(self.lines[f.start:f.end]).encode()).hexdigest()[:12]

    def parse_body(self, f):
        if f.blocks is not None:
            return f
        locals_ = {}
        blocks = {}
        cur = None
        lines = self.lines
        i = f.start + 1
        while i < f.end:
            line = lines[i]
            s = line.strip()
            i += 1
            if not s or s.startswith('//'):
                continue
            if s.startswith('let '):
                # may span multiple lines? types are single-line in practice
                m = re.match(r'let (mut )?_(\d+): (.*);$', s)
                if not m:
                    raise MirParseError('let: %r' % s)
                locals_[int(m.group(2))] = m.group(3)
                continue
            if s.startswith('debug '):
                m = re.match(r'debug (\S+) => (.*);$', s)
                if m:
                    f.debug[m.group(2)] = m.group(1)
                continue
            if s.startswith('scope ') or s == '}':
                if s == '}' and cur is not None and line.startswith('    }'):
                    cur = None
                continue
            m = re.match(r'bb(\d+)( \(cleanup\))?: \{$', s)
            if m:
                cur = Block()
                cur.cleanup = bool(m.group(2))
                blocks[int(m.group(1))] = cur
                continue
            if cur is None:
                if s.startswith(('coroutine_layout', 'field_tys', 'variant_fields', 'storage_conflicts', 'Suspend', 'Returned', 'Unresumed', 'Panicked', '_', 'Bit', '}', '{', ']', '[')) or '=>' in s or s.endswith(('{', '},', '],', ',')):
                    continue
                raise MirParseError('outside block in %s: %r' % (f.name, s))
            if cur.cleanup:
                # cleanup blocks are never executed (panics end the path); keep them unparsed
                cur.term = ('resume',)
                continue
            kind, val = parse_statement(s)
            if kind == 'stmt':
                cur.stmts.append(val)
            else:
                cur.term = val
        for a, t in f.args:
            locals_[a] = t
        f.locals = locals_
        f.blocks = blocks
        return f

    def get(self, name):
        f = self.funcs.get(name)
        if f is None:
            return None
        return self.parse_body(f)


if __name__ == '__main__':
    import sys
    import time
    t0 = time.time()
    m = MirModule(sys.argv[1])
    print('indexed', len(m.funcs), 'items in %.1fs' % (time.time() - t0))
    bad = 0
    errs = {}
    for f in list(m.funcs.values()):
        try:
            m.parse_body(f)
        except Exception as e:
            bad += 1
            errs.setdefault(str(e)[:100], []).append(f.name)
    print('parsed; failures', bad, 'in %.1fs' % (time.time() - t0))
    for k, v in sorted(errs.items(), key=lambda kv: -len(kv[1]))[:40]:
        print(len(v), k, '   e.g.', v[0][-80:])
