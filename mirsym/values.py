"""Value domain of the symbolic interpreter: concrete structure, symbolic leaves."""
import z3

ATOM_BITS = 16


class Cell:
    __slots__ = ('v',)

    def __init__(self, v=None):
        self.v = v

    def __repr__(self):
        return 'Cell(%r)' % (self.v,)


class Int:
    __slots__ = ('bits', 'signed', 'v')

    def __init__(self, bits, signed, v):
        self.bits = bits
        self.signed = signed
        if isinstance(v, int):
            v &= (1 << bits) - 1
            if signed and v >> (bits - 1):
                v -= 1 << bits
        self.v = v

    @property
    def concrete(self):
        return isinstance(self.v, int)

    def z(self):
        if isinstance(self.v, int):
            return z3.BitVecVal(self.v, self.bits)
        return self.v

    def __repr__(self):
        return '%s%d(%s)' % ('i' if self.signed else 'u', self.bits, self.v)


INT_TYPES = {
    'i8': (8, True), 'i16': (16, True), 'i32': (32, True), 'i64': (64, True), 'i128': (128, True), 'isize': (64, True),
    'u8': (8, False), 'u16': (16, False), 'u32': (32, False), 'u64': (64, False), 'u128': (128, False),
    'usize': (64, False), 'char': (32, False),
}


def mk_int(ty, v):
    b, s = INT_TYPES[ty]
    return Int(b, s, v)


class UnitT:
    def __repr__(self):
        return '()'


UNIT = UnitT()


class Struct:
    __slots__ = ('name', 'fields')

    def __init__(self, name, fields):
        self.name = name
        self.fields = fields  # [Cell]

    def __repr__(self):
        return '%s{%s}' % (self.name, ', '.join(repr(c.v) for c in self.fields))


class Coroutine(Struct):
    """a coroutine / async-fn body value: captured variables + resume state"""
    __slots__ = ('state', 'body', 'variants')

    def __init__(self, name, fields, body=None):
        Struct.__init__(self, name, fields)
        self.state = 0
        self.body = body
        self.variants = {}      # saved locals per suspension state


class Enum:
    __slots__ = ('name', 'variant', 'vname', 'fields')

    def __init__(self, name, variant, vname, fields):
        self.name = name
        self.variant = variant    # discriminant value (int)
        self.vname = vname
        self.fields = fields

    def __repr__(self):
        return '%s::%s(%s)' % (self.name, self.vname, ', '.join(repr(c.v) for c in self.fields))


class Ref:
    __slots__ = ('cell', 'mut')

    def __init__(self, cell, mut=False):
        self.cell = cell
        self.mut = mut

    def __repr__(self):
        return '&%r' % (self.cell.v,)


class VecV:
    __slots__ = ('elems',)

    def __init__(self, elems=None):
        self.elems = elems if elems is not None else []

    def __repr__(self):
        return 'Vec%r' % ([c.v for c in self.elems],)


class SliceV:
    """a borrowed view of VecV/array cells"""
    __slots__ = ('elems',)

    def __init__(self, elems):
        self.elems = elems

    def __repr__(self):
        return 'Slice%r' % ([c.v for c in self.elems],)


class MapV:
    __slots__ = ('entries', 'is_set')

    def __init__(self, entries=None, is_set=False):
        self.entries = entries if entries is not None else []   # [[key, Cell]]
        self.is_set = is_set

    def __repr__(self):
        return 'Map{%s}' % ', '.join('%r: %r' % (k, c.v) for k, c in self.entries)


class Opaque:
    __slots__ = ('tag', 'data')

    def __init__(self, tag, data=None):
        self.tag = tag
        self.data = data

    def __repr__(self):
        return 'Opaque(%s%s)' % (self.tag, '' if self.data is None else ':%r' % (self.data,))


class FnItem:
    __slots__ = ('path',)

    def __init__(self, path):
        self.path = path

    def __repr__(self):
        return 'fn(%s)' % self.path


class IterV:
    """iterator model: a list of items still to be yielded (front..back)"""
    __slots__ = ('items', 'kind', 'extra')

    def __init__(self, items, kind='slice', extra=None):
        self.items = items
        self.kind = kind
        self.extra = extra

    def __repr__(self):
        return 'Iter<%s>(%d left)' % (self.kind, len(self.items))


# ---------------------------------------------------------------------------- string-like values

_intern = {b'': 0}
_intern_rev = {0: b''}


def intern_id(lit):
    if lit not in _intern:
        n = len(_intern)
        _intern[lit] = n
        _intern_rev[n] = lit
    return _intern[lit]


ATOM_SYMBOLIC_BASE = 1 << 12   # ids >= this never collide with interned literals


class S:
    """String / Vec<u8> / [u8] / [u8;N] value.
    lit : python bytes (concrete), or
    atom: z3 BitVec(ATOM_BITS) -- equality-only abstraction, or
    seq : z3 Seq(BitVec 8) term -- content level abstraction."""
    __slots__ = ('lit', 'atom', 'seq', 'text', 'label', 'n')

    def __init__(self, lit=None, atom=None, seq=None, text=False, label=None, n=None):
        self.n = n
        if isinstance(lit, str):
            lit = lit.encode()
            text = True
        self.lit = lit
        self.atom = atom
        self.seq = seq
        self.text = text
        self.label = label

    def __repr__(self):
        if self.lit is not None:
            return 'S(%r)' % (self.lit,)
        if self.atom is not None:
            return 'S(atom %s)' % self.atom
        return 'S(seq %s)' % self.seq

    def as_atom(self):
        if self.atom is not None:
            return self.atom
        if self.lit is not None:
            return z3.BitVecVal(intern_id(self.lit), ATOM_BITS)
        raise ValueError('seq string used as atom')

    def as_seq(self):
        if self.seq is not None:
            return self.seq
        if self.lit is not None:
            return lit_seq(self.lit)
        raise ValueError('atom string used as seq')


BV8 = z3.BitVecSort(8)
SEQ8 = z3.SeqSort(BV8)


def lit_seq(b):
    if len(b) == 0:
        return z3.Empty(SEQ8)
    units = [z3.Unit(z3.BitVecVal(x, 8)) for x in b]
    if len(units) == 1:
        return units[0]
    return z3.Concat(*units)


def s_eq(a, b):
    """equality of two string-like values -> python bool or z3 Bool"""
    if a.lit is not None and b.lit is not None:
        return a.lit == b.lit
    if a is b:
        return True
    if a.label is not None or b.label is not None:
        if a.label is not None and b.label is not None and a.label[0] == 'sig' and b.label[0] == 'sig':
            return b_and(s_eq(a.label[1], b.label[1]), a.label[2] is b.label[2])
        raise ValueError('equality on opaque labelled bytes')
    if a.seq is not None or b.seq is not None:
        return a.as_seq() == b.as_seq()
    x, y = a.as_atom(), b.as_atom()
    if x.eq(y):
        return True
    r = z3.simplify(x == y)
    if z3.is_true(r):
        return True
    if z3.is_false(r):
        return False
    return r


def s_concat(a, b):
    if a.lit is not None and b.lit is not None:
        return S(lit=a.lit + b.lit, text=a.text)
    return S(seq=z3.Concat(a.as_seq(), b.as_seq()), text=a.text)


def s_len(a):
    """length as python int or z3 Int"""
    if a.lit is not None:
        return len(a.lit)
    if a.n is not None:
        return a.n
    if a.seq is not None:
        return z3.Length(a.seq)
    return LEN_FN(a.atom)


LEN_FN = z3.Function('atom_len', z3.BitVecSort(ATOM_BITS), z3.BitVecSort(64))


# ---------------------------------------------------------------------------- copying

def clone_val(v):
    """deep copy by value; references are shared"""
    if v is None or isinstance(v, (bool, Int, S, UnitT, Ref, Opaque, FnItem, SliceV)) or z3.is_expr(v):
        return v
    if isinstance(v, Coroutine):
        c2 = Coroutine(v.name, [Cell(clone_val(c.v)) for c in v.fields], v.body)
        c2.state = v.state
        return c2
    if isinstance(v, Struct):
        return Struct(v.name, [Cell(clone_val(c.v)) for c in v.fields])
    if isinstance(v, Enum):
        return Enum(v.name, v.variant, v.vname, [Cell(clone_val(c.v)) for c in v.fields])
    if isinstance(v, VecV):
        return VecV([Cell(clone_val(c.v)) for c in v.elems])
    if isinstance(v, MapV):
        return MapV([[clone_val(k), Cell(clone_val(c.v))] for k, c in v.entries], v.is_set)
    if isinstance(v, IterV):
        return IterV(list(v.items), v.kind, v.extra)
    raise TypeError('clone_val: %r' % (v,))


def is_bool(v):
    return isinstance(v, bool) or (z3.is_expr(v) and z3.is_bool(v))


def b_not(v):
    if isinstance(v, bool):
        return not v
    return z3.Not(v)


def b_and(a, b):
    if isinstance(a, bool):
        return b if a else False
    if isinstance(b, bool):
        return a if b else False
    return z3.And(a, b)


def b_or(a, b):
    if isinstance(a, bool):
        return True if a else b
    if isinstance(b, bool):
        return True if b else a
    return z3.Or(a, b)


def b_z(v):
    if isinstance(v, bool):
        return z3.BoolVal(v)
    return v


def some(v):
    return Enum('Option', 1, 'Some', [Cell(v)])


def none():
    return Enum('Option', 0, 'None', [])


def ok(v):
    return Enum('Result', 0, 'Ok', [Cell(v)])


def err(v):
    return Enum('Result', 1, 'Err', [Cell(v)])


def tup(*vs):
    return Struct('(tuple)', [Cell(v) for v in vs])
