"""Abstract models of the std / external functions the crate's MIR calls, and the
environment stubs.  Every model used by a run is listed in the evidence file."""
import re
import z3
from .values import *
from .mir import match_close, split_top

A = z3.BitVecSort(ATOM_BITS)

# uninterpreted structure of a JSON text given as an atom (same text => same parse)
JSON_VALID = z3.Function('json_valid', A, z3.BoolSort())
JSON_IS_OBJ = z3.Function('json_is_obj', A, z3.BoolSort())
JSON_HAS = z3.Function('json_has', A, A, z3.BoolSort())
JSON_IS_STR = z3.Function('json_is_str', A, A, z3.BoolSort())
JSON_STR = z3.Function('json_str', A, A, A)
JSON_IS_BOOL = z3.Function('json_is_bool', A, A, z3.BoolSort())
JSON_BOOL = z3.Function('json_bool', A, A, z3.BoolSort())
B64_OK = z3.Function('b64_ok', A, z3.BoolSort())
B64_DEC = z3.Function('b64_dec', A, A)
B64_ENC = z3.Function('b64_enc', A, A)


def deref(v):
    while isinstance(v, Ref):
        v = v.cell.v
    return v


KEY_EQ_FIELDS = {}      # struct name -> field indices its Eq/Hash impls look at (set by a driver that also checks it against the real impl)


def key_eq(a, b):
    a, b = deref(a), deref(b)
    if isinstance(a, Struct) and isinstance(b, Struct) and a.name == b.name and a.name in KEY_EQ_FIELDS:
        r = True
        for i in KEY_EQ_FIELDS[a.name]:
            r = b_and(r, key_eq(a.fields[i].v, b.fields[i].v))
        return r
    if isinstance(a, S) and isinstance(b, S):
        return s_eq(a, b)
    if isinstance(a, Int) and isinstance(b, Int):
        if a.concrete and b.concrete:
            return a.v == b.v
        return a.z() == b.z()
    if isinstance(a, Struct) and isinstance(b, Struct) and len(a.fields) == len(b.fields):
        r = True
        for x, y in zip(a.fields, b.fields):
            r = b_and(r, key_eq(x.v, y.v))
        return r
    if isinstance(a, Enum) and isinstance(b, Enum):
        if a.variant != b.variant:
            return False
        r = True
        for x, y in zip(a.fields, b.fields):
            r = b_and(r, key_eq(x.v, y.v))
        return r
    if is_bool(a) and is_bool(b):
        if isinstance(a, bool) and isinstance(b, bool):
            return a == b
        return b_z(a) == b_z(b)
    if isinstance(a, UnitT) and isinstance(b, UnitT):
        return True
    if isinstance(a, (VecV, SliceV)) and isinstance(b, (VecV, SliceV)):
        if len(a.elems) != len(b.elems):
            return False
        r = True
        for x, y in zip(a.elems, b.elems):
            r = b_and(r, key_eq(x.v, y.v))
        return r
    raise TypeError('key_eq %r %r' % (a, b))


def generic_args(s):
    """'Foo::<A, B>::bar' -> list of top-level generic args of the first ::<..> group"""
    i = s.find('::<')
    if i == -1:
        i = s.find('<')
        if i == -1:
            return []
        j = match_close(s, i)
        return split_top(s[i + 1:j])
    j = match_close(s, i + 2)
    return split_top(s[i + 3:j])


def default_for_type(ctx, ty):
    ty = ty.strip()
    ty = re.sub(r"^'\w+\s*", '', ty)
    base = ty.split('<')[0].rsplit('::', 1)[-1]
    if ty in INT_TYPES:
        return mk_int(ty, 0)
    if ty == 'bool':
        return False
    if base == 'Vec':
        ga = generic_args(ty)
        if ga and ga[0].strip() == 'u8':
            return S(lit=b'')
        return VecV()
    if base == 'String':
        return S(lit=b'', text=True)
    if base in ('HashMap', 'BTreeMap'):
        return MapV()
    if base in ('HashSet', 'BTreeSet'):
        return MapV(is_set=True)
    if base == 'Option':
        return none()
    if ty.startswith('[u8;'):
        n = int(re.match(r'\[u8; (\d+)\]', ty).group(1))
        return S(lit=bytes(n))
    if ty == '()':
        return UNIT
    # crate type with a Default impl
    f = ctx.index.resolve_dyn(base, 'Default', 'default')
    if f is not None:
        return ctx.call(ctx.mod.parse_body(f), [])
    raise ctx_unsupported('default for type ' + ty)


def ctx_unsupported(msg):
    from .interp import Unsupported
    return Unsupported(msg)


def panic(msg, where=''):
    from .interp import Panic
    return Panic(msg, where)


# ------------------------------------------------------------------------------ iteration

def map_items(ctx, m, mutable):
    items = []
    for e in m.entries:
        if m.is_set:
            items.append(Ref(Cell(e[0])))
        else:
            items.append(tup(Ref(Cell(e[0])), Ref(e[1], mutable)))
    return items


def it_into_iter_ref_vec(ctx, args, ci, dt):
    v = deref(args[0])
    if isinstance(v, S):
        if v.lit is None:
            raise ctx_unsupported('iterating symbolic bytes')
        return IterV([Ref(Cell(Int(8, False, x))) for x in v.lit], 'slice')
    mutable = ci.selfty is not None and ci.selfty.strip().startswith('&mut')
    return IterV([Ref(c, mutable) for c in v.elems], 'slice')


def it_into_iter_vec(ctx, args, ci, dt):
    v = args[0]
    if isinstance(v, S):
        if v.lit is None:
            raise ctx_unsupported('iterating symbolic bytes')
        return IterV([Int(8, False, x) for x in v.lit], 'vec')
    if isinstance(v, Struct):
        return IterV([c.v for c in v.fields], 'vec')
    return IterV([c.v for c in v.elems], 'vec')


def it_into_iter_ref_map(ctx, args, ci, dt):
    m = deref(args[0])
    mutable = ci.selfty is not None and ci.selfty.strip().startswith('&mut')
    return IterV(map_items(ctx, m, mutable), 'map')


def it_into_iter_map(ctx, args, ci, dt):
    m = args[0]
    if m.is_set:
        return IterV([e[0] for e in m.entries], 'map')
    return IterV([tup(e[0], e[1].v) for e in m.entries], 'map')


def it_identity(ctx, args, ci, dt):
    return args[0]


def it_next(ctx, args, ci, dt):
    it = deref(args[0])
    if not isinstance(it, IterV):
        raise ctx_unsupported('next on %r' % (it,))
    if it.kind == 'peekable' and it.extra is not None:
        pass
    if not it.items:
        return none()
    if it.kind == 'map' and ctx.map_order == 'all' and len(it.items) > 1:
        i = ctx.choose(len(it.items), 'map-order')
        return some(it.items.pop(i))
    return some(it.items.pop(0))


def it_next_back(ctx, args, ci, dt):
    it = deref(args[0])
    if not it.items:
        return none()
    return some(it.items.pop())


def it_rev(ctx, args, ci, dt):
    it = args[0]
    return IterV(list(reversed(it.items)), it.kind)


def it_find(ctx, args, ci, dt):
    it = deref(args[0])
    clo = args[1]
    while it.items:
        item = it.items.pop(0)
        r = ctx.call_value(clo, [Ref(Cell(item))])
        if ctx.branch(r):
            return some(item)
    return none()


def it_position(ctx, args, ci, dt):
    it = deref(args[0])
    clo = args[1]
    i = 0
    while it.items:
        item = it.items.pop(0)
        r = ctx.call_value(clo, [item])
        if ctx.branch(r):
            return some(Int(64, False, i))
        i += 1
    return none()


def it_any(ctx, args, ci, dt):
    it = deref(args[0])
    clo = args[1]
    while it.items:
        item = it.items.pop(0)
        r = ctx.call_value(clo, [item])
        if ctx.branch(r):
            return True
    return False


def it_all(ctx, args, ci, dt):
    it = deref(args[0])
    clo = args[1]
    while it.items:
        item = it.items.pop(0)
        r = ctx.call_value(clo, [item])
        if not ctx.branch(r):
            return False
    return True


def it_enumerate(ctx, args, ci, dt):
    it = args[0]
    return IterV([tup(Int(64, False, i), x) for i, x in enumerate(it.items)], it.kind)


def it_map(ctx, args, ci, dt):
    it = args[0]
    clo = args[1]
    return IterV([ctx.call_value(clo, [x]) for x in it.items], 'mapped')


def it_filter_map(ctx, args, ci, dt):
    it = args[0]
    out = []
    for x in it.items:
        r = ctx.call_value(args[1], [x])
        if r.variant == 1:
            out.append(r.fields[0].v)
    return IterV(out, 'mapped')


def it_filter(ctx, args, ci, dt):
    it = args[0]
    out = []
    for x in it.items:
        if ctx.branch(ctx.call_value(args[1], [Ref(Cell(x))])):
            out.append(x)
    return IterV(out, it.kind)


def it_skip(ctx, args, ci, dt):
    it = args[0]
    n = ctx.concretize_int(args[1], 'skip')
    return IterV(list(it.items[n:]), it.kind)


def it_cloned(ctx, args, ci, dt):
    it = args[0]
    return IterV([clone_val(deref(x)) for x in it.items], it.kind)


def it_zip(ctx, args, ci, dt):
    a = args[0]
    b = args[1]
    if not isinstance(b, IterV):
        bv = deref(b)
        mutable = False
        if isinstance(bv, S):
            b = it_into_iter_ref_vec(ctx, [b], ci, dt)
        elif isinstance(bv, MapV):
            b = IterV(map_items(ctx, bv, False), 'map')
        elif isinstance(b, Ref):
            b = IterV([Ref(c) for c in ctx.elems_of(bv)], 'slice')
        else:
            b = IterV([c.v for c in ctx.elems_of(bv)], 'vec')
    n = min(len(a.items), len(b.items))
    return IterV([tup(a.items[i], b.items[i]) for i in range(n)], 'zip')


def it_minmax(which):
    def f(ctx, args, ci, dt):
        it = args[0]
        items = list(it.items)
        if not items:
            return none()
        best = items[0]
        for x in items[1:]:
            a, b = deref(best), deref(x)
            lt = ctx.binop(None, 'Lt', b, a) if which == 'min' else ctx.binop(None, 'Ge', b, a)
            if ctx.branch(lt):
                best = x
        return some(best)
    return f


def it_collect(ctx, args, ci, dt):
    it = args[0]
    g = ci.generics
    t = (g[3:-1] if g.startswith('::<') else g[1:-1]).strip() if g else (dt or '')
    base = t.split('<')[0].rsplit('::', 1)[-1]
    if base == 'Vec':
        return VecV([Cell(x) for x in it.items])
    if base in ('HashSet', 'BTreeSet'):
        m = MapV(is_set=True)
        for x in it.items:
            map_insert(ctx, m, x, UNIT)
        return m
    if base in ('HashMap', 'BTreeMap'):
        m = MapV()
        for x in it.items:
            map_insert(ctx, m, x.fields[0].v, x.fields[1].v)
        return m
    raise ctx_unsupported('collect into ' + t)


def it_count(ctx, args, ci, dt):
    return Int(64, False, len(args[0].items))


def slice_iter(ctx, args, ci, dt):
    v = deref(args[0])
    if isinstance(v, S):
        if v.lit is None:
            raise ctx_unsupported('iterating symbolic bytes')
        return IterV([Ref(Cell(Int(8, False, x))) for x in v.lit], 'slice')
    return IterV([Ref(c) for c in ctx.elems_of(v)], 'slice')


def slice_iter_mut(ctx, args, ci, dt):
    v = deref(args[0])
    return IterV([Ref(c, True) for c in ctx.elems_of(v)], 'slice')


def slice_last(ctx, args, ci, dt):
    v = deref(args[0])
    el = ctx.elems_of(v)
    if not el:
        return none()
    return some(Ref(el[-1]))


def slice_first(ctx, args, ci, dt):
    v = deref(args[0])
    el = ctx.elems_of(v)
    if not el:
        return none()
    return some(Ref(el[0]))


def slice_len(ctx, args, ci, dt):
    return ctx.len_of(deref(args[0]))


def slice_is_empty(ctx, args, ci, dt):
    v = deref(args[0])
    if isinstance(v, S):
        return str_is_empty(ctx, args, ci, dt)
    return len(ctx.elems_of(v)) == 0


def slice_get(ctx, args, ci, dt):
    v = deref(args[0])
    el = ctx.elems_of(v)
    i = ctx.concretize_int(args[1], 'slice index')
    if i < len(el):
        return some(Ref(el[i]))
    return none()


def slice_sort_by(ctx, args, ci, dt):
    """stable insertion sort driven by the interpreted comparator"""
    v = deref(args[0])
    el = ctx.elems_of(v)
    clo = args[1]
    vals = [c.v for c in el]
    out = []
    for x in vals:
        pos = len(out)
        while pos > 0:
            o = ctx.call_value(clo, [Ref(Cell(out[pos - 1])), Ref(Cell(x))])
            # o = cmp(out[pos-1], x); move left while out[pos-1] > x
            if isinstance(o, Enum) and o.variant == 1:
                pos -= 1
            else:
                break
        out.insert(pos, x)
    for c, x in zip(el, out):
        c.v = x
    return UNIT


# ------------------------------------------------------------------------------ Option / Result

def opt_is_none(ctx, args, ci, dt):
    return deref(args[0]).variant == 0


def opt_is_some(ctx, args, ci, dt):
    return deref(args[0]).variant == 1


def opt_as_ref(ctx, args, ci, dt):
    o = deref(args[0])
    if o.variant == 0:
        return none()
    return some(Ref(o.fields[0]))


def opt_as_mut(ctx, args, ci, dt):
    o = deref(args[0])
    if o.variant == 0:
        return none()
    return some(Ref(o.fields[0], True))


def opt_unwrap(ctx, args, ci, dt):
    o = args[0]
    if o.name == 'Option':
        if o.variant == 0:
            raise panic('called `Option::unwrap()` on a `None` value')
        return o.fields[0].v
    if o.variant == 1:
        raise panic('called `Result::unwrap()` on an `Err` value')
    return o.fields[0].v


def opt_expect(ctx, args, ci, dt):
    return opt_unwrap(ctx, args, ci, dt)


def opt_unwrap_or(ctx, args, ci, dt):
    o = args[0]
    if o.name == 'Option':
        return args[1] if o.variant == 0 else o.fields[0].v
    return args[1] if o.variant == 1 else o.fields[0].v


def opt_ok_or(ctx, args, ci, dt):
    o = args[0]
    if o.variant == 0:
        return err(args[1])
    return ok(o.fields[0].v)


def opt_or(ctx, args, ci, dt):
    o = args[0]
    return o if o.variant == 1 else args[1]


def opt_take(ctx, args, ci, dt):
    c = args[0].cell
    v = c.v
    c.v = none()
    return v


def opt_map(ctx, args, ci, dt):
    o = args[0]
    if o.name == 'Option':
        if o.variant == 0:
            return o
        return some(ctx.call_value(args[1], [o.fields[0].v]))
    if o.variant == 1:
        return o
    return ok(ctx.call_value(args[1], [o.fields[0].v]))


def set_from_array(ctx, args, ci, dt):
    """HashSet::from([a, b, ..]) / HashMap::from([(k, v), ..])"""
    is_set = 'HashSet' in (ci.selfty or ci.raw)
    m = MapV(is_set=is_set)
    for c in ctx.elems_of(args[0]):
        if is_set:
            map_insert(ctx, m, c.v, UNIT)
        else:
            map_insert(ctx, m, c.v.fields[0].v, c.v.fields[1].v)
    return m


def opt_and_then(ctx, args, ci, dt):
    o = args[0]
    if o.variant == 0:
        return o
    return ctx.call_value(args[1], [o.fields[0].v])


def opt_is_some_and(ctx, args, ci, dt):
    o = args[0]
    if o.variant == 0:
        return False
    return ctx.call_value(args[1], [o.fields[0].v])


def opt_is_none_or(ctx, args, ci, dt):
    o = args[0]
    if o.variant == 0:
        return True
    return ctx.call_value(args[1], [o.fields[0].v])


def opt_map_or(ctx, args, ci, dt):
    o = args[0]
    if o.variant == 0:
        return args[1]
    return ctx.call_value(args[2], [o.fields[0].v])


def res_map_err(ctx, args, ci, dt):
    r = args[0]
    if r.variant == 0:
        return r
    return err(ctx.call_value(args[1], [r.fields[0].v]))


def res_is_ok(ctx, args, ci, dt):
    return deref(args[0]).variant == 0


def res_is_err(ctx, args, ci, dt):
    return deref(args[0]).variant == 1


def res_ok(ctx, args, ci, dt):
    r = args[0]
    return some(r.fields[0].v) if r.variant == 0 else none()


def try_branch(ctx, args, ci, dt):
    r = args[0]
    if r.name == 'Option':
        if r.variant == 1:
            return Enum('ControlFlow', 0, 'Continue', [Cell(r.fields[0].v)])
        return Enum('ControlFlow', 1, 'Break', [Cell(none())])
    if r.variant == 0:
        return Enum('ControlFlow', 0, 'Continue', [Cell(r.fields[0].v)])
    return Enum('ControlFlow', 1, 'Break', [Cell(err(r.fields[0].v))])


def _err_type_of(t):
    ga = generic_args(t)
    return ga[-1].strip() if ga else ''


def from_residual(ctx, args, ci, dt):
    r = args[0]
    if r.name == 'Option':
        return none()
    e = r.fields[0].v
    target = _err_type_of(ci.selfty)
    m = re.search(r'FromResidual<(.*)>$', ci.trait)
    source = _err_type_of(m.group(1)) if m else ''
    from .interp import last_seg
    if target == source or (last_seg(target) == last_seg(source) and target.split('::')[-2:-1] == source.split('::')[-2:-1]):
        return err(e)
    return err(Enum('Error', -1, 'From', [Cell(e)]))


def clone_model(ctx, args, ci, dt):
    return clone_val(deref(args[0]))


def default_model(ctx, args, ci, dt):
    return default_for_type(ctx, ci.selfty)


def into_identity(ctx, args, ci, dt):
    return args[0]


# ------------------------------------------------------------------------------ strings / bytes

def str_value(ctx, args, ci, dt):
    return deref(args[0])


def str_eq(ctx, args, ci, dt):
    return s_eq(deref(args[0]), deref(args[1]))


def str_ne(ctx, args, ci, dt):
    return b_not(s_eq(deref(args[0]), deref(args[1])))


def str_is_empty(ctx, args, ci, dt):
    s = deref(args[0])
    if s.lit is not None:
        return len(s.lit) == 0
    if s.seq is not None:
        return z3.Length(s.seq) == 0
    return s.atom == z3.BitVecVal(0, ATOM_BITS)


def str_len(ctx, args, ci, dt):
    return ctx.len_of(deref(args[0]))


def str_to_string(ctx, args, ci, dt):
    s = deref(args[0])
    if isinstance(s, S):
        return S(lit=s.lit, atom=s.atom, seq=s.seq, text=True)
    if isinstance(s, Int):
        if s.concrete:
            return S(lit=str(s.v), text=True)
        return Opaque('int_to_string', s)
    if isinstance(s, Opaque):
        return S(atom=ctx.fresh('display', A), text=True)
    raise ctx_unsupported('to_string of %r' % (s,))


def string_new(ctx, args, ci, dt):
    return S(lit=b'', text=True)


def string_push_str(ctx, args, ci, dt):
    c = args[0].cell
    c.v = s_concat(c.v, deref(args[1]))
    return UNIT


def string_push(ctx, args, ci, dt):
    c = args[0].cell
    ch = args[1]
    if not ch.concrete:
        raise ctx_unsupported('push of symbolic char')
    c.v = s_concat(c.v, S(lit=chr(ch.v).encode(), text=True))
    return UNIT


def vec_new(ctx, args, ci, dt):
    raw = ci.raw
    if re.match(r'^(std::vec::)?Vec::<u8>', raw) or (dt and re.match(r'^(std::vec::)?Vec<u8>', dt)):
        return S(lit=b'')
    return VecV()


def vec_with_capacity(ctx, args, ci, dt):
    return vec_new(ctx, args, ci, dt)


def vec_push(ctx, args, ci, dt):
    c = args[0].cell
    v = c.v
    if isinstance(v, S):
        b = args[1]
        if v.lit is not None and b.concrete:
            c.v = S(lit=v.lit + bytes([b.v & 0xff]))
        else:
            c.v = S(seq=z3.Concat(v.as_seq(), z3.Unit(b.z())))
        return UNIT
    v.elems.append(Cell(args[1]))
    return UNIT


def vec_append(ctx, args, ci, dt):
    a = args[0].cell.v
    bc = args[1].cell
    b = bc.v
    if isinstance(a, S):
        args[0].cell.v = s_concat(a, b)
        bc.v = S(lit=b'')
        return UNIT
    a.elems.extend(b.elems)
    bc.v = VecV()
    return UNIT


def vec_extend(ctx, args, ci, dt):
    c = args[0].cell
    a = c.v
    b = deref(args[1])
    if isinstance(a, S):
        if isinstance(b, IterV):
            raise ctx_unsupported('extend bytes from iterator')
        c.v = s_concat(a, b)
        return UNIT
    if isinstance(b, IterV):
        a.elems.extend(Cell(x) for x in b.items)
    else:
        a.elems.extend(Cell(clone_val(x.v)) for x in ctx.elems_of(b))
    return UNIT


def vec_is_empty(ctx, args, ci, dt):
    v = deref(args[0])
    if isinstance(v, S):
        return str_is_empty(ctx, args, ci, dt)
    return len(v.elems) == 0


def vec_len(ctx, args, ci, dt):
    return ctx.len_of(deref(args[0]))


def vec_deref(ctx, args, ci, dt):
    v = deref(args[0])
    if isinstance(v, S):
        return v
    return SliceV(v.elems)


def vec_eq(ctx, args, ci, dt):
    return key_eq(args[0], args[1])


def vec_clear(ctx, args, ci, dt):
    c = args[0].cell
    c.v = S(lit=b'') if isinstance(c.v, S) else VecV()
    return UNIT


def vec_pop(ctx, args, ci, dt):
    v = args[0].cell.v
    if not v.elems:
        return none()
    return some(v.elems.pop().v)


def vec_remove(ctx, args, ci, dt):
    v = args[0].cell.v
    i = ctx.concretize_int(args[1], 'remove index')
    if i >= len(v.elems):
        raise panic('removal index out of bounds')
    return v.elems.pop(i).v


def vec_retain(ctx, args, ci, dt):
    v = args[0].cell.v
    keep = []
    for c in list(v.elems):
        if ctx.branch(ctx.call_value(args[1], [Ref(c)])):
            keep.append(c)
    v.elems[:] = keep
    return UNIT


def vec_insert(ctx, args, ci, dt):
    v = args[0].cell.v
    i = ctx.concretize_int(args[1], 'insert index')
    if i > len(v.elems):
        raise panic('insertion index out of bounds')
    v.elems.insert(i, Cell(args[2]))
    return UNIT


def vec_contains(ctx, args, ci, dt):
    v = deref(args[0])
    x = args[1]
    for c in ctx.elems_of(v):
        if ctx.branch(key_eq(c.v, x)):
            return True
    return False


def vec_index(ctx, args, ci, dt):
    v = deref(args[0])
    if isinstance(args[1], Struct) and args[1].name in ('RangeFrom', 'Range', 'RangeTo'):
        el = ctx.elems_of(v)
        r = args[1]
        lo = ctx.concretize_int(r.fields[0].v, 'index') if r.name != 'RangeTo' else 0
        hi = len(el) if r.name == 'RangeFrom' else ctx.concretize_int(r.fields[-1].v, 'index')
        if lo > hi:
            raise panic('slice index starts at %d but ends at %d' % (lo, hi))
        if hi > len(el):
            raise panic('range end index %d out of range for slice of length %d' % (hi, len(el)))
        return Ref(Cell(SliceV(el[lo:hi])))
    i = ctx.concretize_int(args[1], 'index')
    el = ctx.elems_of(v)
    if i >= len(el):
        raise panic('index out of bounds: the len is %d but the index is %d' % (len(el), i))
    return Ref(el[i])


def to_vec(ctx, args, ci, dt):
    v = deref(args[0])
    if isinstance(v, S):
        return S(lit=v.lit, atom=v.atom, seq=v.seq)
    return VecV([Cell(clone_val(c.v)) for c in ctx.elems_of(v)])


def i64_to_le_bytes(ctx, args, ci, dt):
    v = args[0]
    n = v.bits // 8
    if v.concrete:
        return S(lit=(v.v & ((1 << v.bits) - 1)).to_bytes(n, 'little'))
    x = v.z()
    units = [z3.Unit(z3.Extract(8 * i + 7, 8 * i, x)) for i in range(n)]
    return S(seq=z3.Concat(*units))


def i64_to_be_bytes(ctx, args, ci, dt):
    v = args[0]
    n = v.bits // 8
    if v.concrete:
        return S(lit=(v.v & ((1 << v.bits) - 1)).to_bytes(n, 'big'))
    x = v.z()
    units = [z3.Unit(z3.Extract(8 * i + 7, 8 * i, x)) for i in reversed(range(n))]
    return S(seq=z3.Concat(*units))


def add_assign(ctx, args, ci, dt):
    c = args[0].cell
    b = deref(args[1])
    from .interp import Panic
    r = ctx.binop(None, 'AddWithOverflow', c.v, b)
    if ctx.branch(r.fields[1].v):
        raise Panic('attempt to add with overflow')
    c.v = r.fields[0].v
    return UNIT


def int_max(ctx, args, ci, dt):
    a, b = args
    if a.concrete and b.concrete:
        return a if a.v >= b.v else b
    ge = ctx.binop(None, 'Ge', a, b)
    return Int(a.bits, a.signed, z3.If(ge, a.z(), b.z()))


def int_min(ctx, args, ci, dt):
    a, b = args
    if a.concrete and b.concrete:
        return a if a.v <= b.v else b
    le = ctx.binop(None, 'Le', a, b)
    return Int(a.bits, a.signed, z3.If(le, a.z(), b.z()))


def int_eq(ctx, args, ci, dt):
    return key_eq(args[0], args[1])


def int_cmp(ctx, args, ci, dt):
    return ctx.binop(None, 'Cmp', deref(args[0]), deref(args[1]))


# ------------------------------------------------------------------------------ HashMap / HashSet

def map_find(ctx, m, key):
    """index of the entry whose key equals `key` on this path (forks), or -1"""
    for i, e in enumerate(m.entries):
        if ctx.branch(key_eq(e[0], key)):
            return i
    return -1


def map_insert(ctx, m, key, val):
    i = map_find(ctx, m, key)
    if i >= 0:
        old = m.entries[i][1].v
        m.entries[i][1].v = val
        return some(old)
    m.entries.append([deref(key) if isinstance(key, Ref) else key, Cell(val)])
    return none()


def hm_new(ctx, args, ci, dt):
    return MapV(is_set=('HashSet' in ci.raw.split('::<')[0] or 'BTreeSet' in ci.raw.split('::<')[0]))


def hm_get(ctx, args, ci, dt):
    m = deref(args[0])
    i = map_find(ctx, m, deref(args[1]))
    if i < 0:
        return none()
    if m.is_set:
        # HashSet::get answers with the element that is stored
        return some(Ref(Cell(m.entries[i][0])))
    return some(Ref(m.entries[i][1]))


def hm_get_mut(ctx, args, ci, dt):
    m = deref(args[0])
    i = map_find(ctx, m, deref(args[1]))
    if i < 0:
        return none()
    return some(Ref(m.entries[i][1], True))


def hm_contains_key(ctx, args, ci, dt):
    m = deref(args[0])
    return map_find(ctx, m, deref(args[1])) >= 0


def hm_insert(ctx, args, ci, dt):
    m = deref(args[0])
    if m.is_set:
        r = map_insert(ctx, m, args[1], UNIT)
        return r.variant == 0
    return map_insert(ctx, m, args[1], args[2])


def hm_remove(ctx, args, ci, dt):
    m = deref(args[0])
    i = map_find(ctx, m, deref(args[1]))
    if m.is_set:
        if i >= 0:
            m.entries.pop(i)
        return i >= 0
    if i < 0:
        return none()
    return some(m.entries.pop(i)[1].v)


def hm_entry(ctx, args, ci, dt):
    return Opaque('entry', (deref(args[0]), args[1], ci.raw))


def hm_or_default(ctx, args, ci, dt):
    m, key, raw = args[0].data
    i = map_find(ctx, m, key)
    if i >= 0:
        return Ref(m.entries[i][1], True)
    ga = generic_args(ci.raw)
    vt = ga[-1] if ga else None
    if vt is None:
        raise ctx_unsupported('or_default: value type unknown in ' + ci.raw)
    c = Cell(default_for_type(ctx, vt))
    m.entries.append([key, c])
    return Ref(c, True)


def hm_or_insert(ctx, args, ci, dt):
    m, key, raw = args[0].data
    i = map_find(ctx, m, key)
    if i >= 0:
        return Ref(m.entries[i][1], True)
    c = Cell(args[1])
    m.entries.append([key, c])
    return Ref(c, True)


def hm_or_insert_with(ctx, args, ci, dt):
    m, key, raw = args[0].data
    i = map_find(ctx, m, key)
    if i >= 0:
        return Ref(m.entries[i][1], True)
    c = Cell(ctx.call_value(args[1], []))
    m.entries.append([key, c])
    return Ref(c, True)


def hm_len(ctx, args, ci, dt):
    return Int(64, False, len(deref(args[0]).entries))


def hm_is_empty(ctx, args, ci, dt):
    return len(deref(args[0]).entries) == 0


def hm_iter(ctx, args, ci, dt):
    return IterV(map_items(ctx, deref(args[0]), False), 'map')


def hm_iter_mut(ctx, args, ci, dt):
    return IterV(map_items(ctx, deref(args[0]), True), 'map')


def hm_values(ctx, args, ci, dt):
    m = deref(args[0])
    return IterV([Ref(e[1]) for e in m.entries], 'map')


def hm_values_mut(ctx, args, ci, dt):
    m = deref(args[0])
    return IterV([Ref(e[1], True) for e in m.entries], 'map')


def hm_keys(ctx, args, ci, dt):
    m = deref(args[0])
    return IterV([Ref(Cell(e[0])) for e in m.entries], 'map')


def hm_clear(ctx, args, ci, dt):
    deref(args[0]).entries.clear()
    return UNIT


def hm_eq(ctx, args, ci, dt):
    a, b = deref(args[0]), deref(args[1])
    if len(a.entries) != len(b.entries):
        return False
    r = True
    for k, c in a.entries:
        i = map_find(ctx, b, k)
        if i < 0:
            return False
        if not a.is_set:
            r = b_and(r, key_eq(c.v, b.entries[i][1].v))
    return r


# ------------------------------------------------------------------------------ serde_json over atom rows

def jv(kind, payload=None):
    """a serde_json::Value tree node built by a driver: kind in obj/arr/int/bool/str/null"""
    return Opaque('jv', (kind, payload))


def json_from_str(ctx, args, ci, dt):
    s = deref(args[0])
    if s.label is not None and s.label[0] == 'jsontree':
        return ok(s.label[1])
    if s.lit is not None:
        raise ctx_unsupported('json from concrete text (not needed so far)')
    a = s.as_atom()
    if ctx.branch(JSON_VALID(a)):
        return ok(Opaque('json', a))
    return err(Opaque('serde_json::Error'))


JSON_QUOTE = z3.Function('json_quote', A, A)


def json_to_string(ctx, args, ci, dt):
    """serde_json::to_string(&String): the JSON string literal of the text (injective); cannot fail"""
    v = deref(args[0])
    if isinstance(v, S):
        if v.seq is not None or getattr(ctx, 'json_quote_exact', False):
            return ok(json_quote_seq(ctx, v))
        ctx.assumptions.add('serde_json::to_string on a String is an injective uninterpreted function (atom mode)')
        return ok(S(atom=JSON_QUOTE(v.as_atom()), text=True))
    raise ctx_unsupported('serde_json::to_string of %r' % (v,))


def json_quote_seq(ctx, v):
    raise ctx_unsupported('exact JSON quoting not installed')


def json_as_object(ctx, args, ci, dt):
    v = deref(args[0])
    if v.tag == 'jv':
        kind, payload = v.data
        return some(Ref(Cell(Opaque('jvmap', payload)))) if kind == 'obj' else none()
    if v.tag == 'json':
        if ctx.branch(JSON_IS_OBJ(v.data)):
            return some(Ref(Cell(Opaque('jsonmap', v.data))))
        return none()
    return none()


def json_map_get(ctx, args, ci, dt):
    m = deref(args[0])
    k = deref(args[1])
    if m.tag == 'jvmap':
        if k.lit is None:
            raise ctx_unsupported('json map lookup with a symbolic key')
        c = m.data.get(k.lit.decode())
        return some(Ref(c)) if c is not None else none()
    ka = k.as_atom()
    if ctx.branch(JSON_HAS(m.data, ka)):
        return some(Ref(Cell(Opaque('jsonfield', (m.data, ka)))))
    return none()


def json_as_array(ctx, args, ci, dt):
    v = deref(args[0])
    if v.tag == 'jv' and v.data[0] == 'arr':
        return some(Ref(Cell(v.data[1])))
    return none()


def json_as_i64(ctx, args, ci, dt):
    v = deref(args[0])
    if v.tag == 'jv' and v.data[0] == 'int':
        return some(v.data[1])
    return none()


def json_as_str(ctx, args, ci, dt):
    v = deref(args[0])
    if v.tag == 'jv':
        return some(v.data[1]) if v.data[0] == 'str' else none()
    if v.tag == 'jsonfield':
        a, k = v.data
        if ctx.branch(JSON_IS_STR(a, k)):
            return some(S(atom=JSON_STR(a, k), text=True))
    return none()


def json_as_bool(ctx, args, ci, dt):
    v = deref(args[0])
    if v.tag == 'jv':
        return some(v.data[1]) if v.data[0] == 'bool' else none()
    if v.tag == 'jsonfield':
        a, k = v.data
        if ctx.branch(JSON_IS_BOOL(a, k)):
            return some(JSON_BOOL(a, k))
    return none()


# ------------------------------------------------------------------------------ environment stubs

def stub_now(ctx, args, ci, dt):
    """date_utils::now(): fresh symbolic i64 per call, non-decreasing along the path"""
    v = ctx.fresh_int('now', 'i64')
    prev = getattr(ctx, '_last_now', None)
    if prev is not None and prev[0] is ctx.pc:
        pass
    lst = [e for e in ctx.events if e[0] == 'now']
    if lst:
        ctx.add(v.v >= lst[-1][1].v)
    ctx.events.append(('now', v))
    ctx.assumptions.add('date_utils::now() returns an arbitrary i64, non-decreasing from call to call')
    return v


def stub_base64_encode(ctx, args, ci, dt):
    s = deref(args[0])
    ctx.assumptions.add('base64_encode is an injective uninterpreted function')
    if s.seq is not None:
        return S(atom=z3.BitVecVal(ATOM_SYMBOLIC_BASE - 1, ATOM_BITS), text=True)
    return S(atom=B64_ENC(s.as_atom()), text=True)


def stub_base64_decode(ctx, args, ci, dt):
    s = deref(args[0])
    a = s.as_atom()
    ctx.assumptions.add('base64_decode is an uninterpreted partial function of its input')
    if ctx.branch(B64_OK(a)):
        return ok(S(atom=B64_DEC(a)))
    return err(Opaque('security::Error::Base64'))


def stub_export_verifying_key(ctx, args, ci, dt):
    k = deref(args[0])
    if isinstance(k, Opaque) and k.tag == 'signing_key':
        return clone_val(k.data)
    raise ctx_unsupported('export_verifying_key of %r' % (k,))


SIG = z3.Function('sig', A, A, A)          # sig(verifying key atom, message atom)
HASH_ATOM = z3.Function('digest_of', A, A)


def stub_sign(ctx, args, ci, dt):
    k = deref(args[0])
    msg = deref(args[1])
    ctx.assumptions.add('Ed25519 is ideal: a signature is the pair (key, message) and verifies for exactly that pair')
    ctx.events.append(('sign', k.data, msg))
    return S(label=('sig', k.data, msg))


def stub_serialized_size(ctx, args, ci, dt):
    n = deref(args[0])
    ctx.assumptions.add('bincode::serialized_size(node) is an uninterpreted u64 attached to the node by the driver')
    sz = getattr(ctx, 'node_sizes', {}).get(id(n))
    if sz is None:
        # search by identity of the struct object
        for obj, val in getattr(ctx, 'node_size_list', []):
            if obj is n:
                sz = val
                break
    if sz is None:
        raise ctx_unsupported('serialized_size of a node the driver did not register')
    return ok(sz)


# ------------------------------------------------------------------------------ blake3 as a recorder

def hasher_new(ctx, args, ci, dt):
    ctx.assumptions.add('blake3 is ideal: a digest is an injective function of the byte stream fed to update()')
    return Opaque('hasher', [])


def hasher_update(ctx, args, ci, dt):
    h = deref(args[0])
    piece = deref(args[1])
    h.data.append(piece)
    return args[0]


def hasher_finalize(ctx, args, ci, dt):
    h = deref(args[0])
    return Opaque('hash', list(h.data))


def hash_as_bytes(ctx, args, ci, dt):
    h = deref(args[0])
    d = S(lit=None, atom=None, seq=None, label=('digest', h.data))
    ctx.events.append(('digest', h.data))
    return Ref(Cell(d))


# ------------------------------------------------------------------------------ chrono (date_utils::date / date_next_day)
CHRONO_MIN = -8334601228800000      # measured natively (hooks: verif_chrono_range)
CHRONO_MAX = 8210266876799999
DAY_MS = 86400000
REMDAY = z3.Function('rem_euclid_day', z3.BitVecSort(64), z3.BitVecSort(64))   # x.rem_euclid(86_400_000), axiomatised lazily


def DAYFN(x):
    """start of the UTC day containing x (floor), as the term x - rem_euclid(x, DAY)"""
    return x - REMDAY(x)


def rem_day(ctx, x):
    """the term REMDAY(x) with its range constraint; exact definition is added by day_axioms()"""
    r = REMDAY(x)
    ctx.add(z3.And(r >= 0, r < DAY_MS))
    if not any(t.eq(x) for t in ctx.day_terms):
        ctx.day_terms.append(x)
    return r


def day_axioms(ctx):
    """exact definition of rem_euclid(., DAY) on every term it was applied to on this path"""
    return [REMDAY(t) == (t % z3.BitVecVal(DAY_MS, 64)) for t in ctx.day_terms]


def _dt(ctx, ms):
    return Opaque('datetime', ms)


def chrono_from_timestamp_millis(ctx, args, ci, dt):
    d = args[0]
    ctx.assumptions.add('chrono: DateTime::from_timestamp_millis(ms) is Some exactly for ms in [%d, %d] (measured natively); '
                        'date_naive().and_hms_opt(0,0,0).and_utc().timestamp_millis() is the floor to the UTC day' % (CHRONO_MIN, CHRONO_MAX))
    if d.concrete:
        return some(_dt(ctx, d)) if CHRONO_MIN <= d.v <= CHRONO_MAX else none()
    inr = z3.And(d.v >= CHRONO_MIN, d.v <= CHRONO_MAX)
    if getattr(ctx, 'dates_in_range', False):
        ctx.add(inr)
        return some(_dt(ctx, d))
    if ctx.branch(inr):
        return some(_dt(ctx, d))
    return none()


def chrono_date_naive(ctx, args, ci, dt):
    d = deref(args[0]).data
    if d.concrete:
        return Opaque('naivedate', Int(64, True, d.v - d.v % DAY_MS))
    return Opaque('naivedate', Int(64, True, d.v - rem_day(ctx, d.v)))


def chrono_and_hms_opt(ctx, args, ci, dt):
    nd = deref(args[0])
    h, m_, s_ = args[1], args[2], args[3]
    if not (h.concrete and m_.concrete and s_.concrete and h.v == 0 and m_.v == 0 and s_.v == 0):
        raise ctx_unsupported('and_hms_opt with a non-midnight time')
    return some(Opaque('naivedatetime', nd.data))


def chrono_and_utc(ctx, args, ci, dt):
    return Opaque('datetime', deref(args[0]).data)


def chrono_timestamp_millis(ctx, args, ci, dt):
    return deref(args[0]).data


def chrono_days(ctx, args, ci, dt):
    n = args[0]
    if not n.concrete:
        raise ctx_unsupported('TimeDelta::days of a symbolic count')
    return Opaque('timedelta', n.v * DAY_MS)


def chrono_add(ctx, args, ci, dt):
    d = deref(args[0]).data
    delta = deref(args[1]).data
    if d.concrete:
        r = d.v + delta
        if not (CHRONO_MIN <= r <= CHRONO_MAX):
            raise panic('`DateTime + TimeDelta` overflowed', 'chrono')
        return _dt(ctx, Int(64, True, r))
    r = d.v + z3.BitVecVal(delta, 64)
    inr = z3.And(r >= CHRONO_MIN, r <= CHRONO_MAX, z3.BVAddNoOverflow(d.v, z3.BitVecVal(delta, 64), True))
    if getattr(ctx, 'dates_in_range', False):
        ctx.add(inr)
    elif not ctx.branch(inr):
        raise panic('`DateTime + TimeDelta` overflowed', 'chrono')
    return _dt(ctx, Int(64, True, r))


def int_rem_euclid(ctx, args, ci, dt):
    a, b = args
    if a.concrete and b.concrete:
        if b.v == 0:
            raise panic('attempt to calculate the remainder with a divisor of zero')
        return Int(a.bits, a.signed, a.v % abs(b.v))
    if b.concrete and b.v == DAY_MS and a.bits == 64:
        return Int(64, True, rem_day(ctx, a.z()))
    if b.concrete and b.v > 0:
        return Int(a.bits, a.signed, a.z() % b.z())
    raise ctx_unsupported('rem_euclid with a symbolic divisor')


def int_div_euclid(ctx, args, ci, dt):
    a, b = args
    if a.concrete and b.concrete:
        if b.v == 0:
            raise panic('attempt to divide by zero')
        return Int(a.bits, a.signed, a.v // b.v if b.v > 0 else -(a.v // -b.v))
    if b.concrete and b.v == DAY_MS and a.bits == 64:
        # (a - rem) / DAY is exact
        r = rem_day(ctx, a.z())
        return Int(64, True, (a.z() - r) / z3.BitVecVal(DAY_MS, 64))
    raise ctx_unsupported('div_euclid')


def int_saturating(op):
    def f(ctx, args, ci, dt):
        a, b = args
        bits = a.bits
        lo, hi = (-(1 << (bits - 1)), (1 << (bits - 1)) - 1) if a.signed else (0, (1 << bits) - 1)
        if a.concrete and b.concrete:
            r = a.v + b.v if op == 'add' else a.v - b.v
            return Int(bits, a.signed, max(lo, min(hi, r)))
        x, y = a.z(), b.z()
        if not a.signed:
            raise ctx_unsupported('unsigned saturating op on symbolic values')
        if op == 'add':
            r = x + y
            ovf = z3.Not(z3.BVAddNoOverflow(x, y, True))
            udf = z3.Not(z3.BVAddNoUnderflow(x, y))
        else:
            r = x - y
            ovf = z3.Not(z3.BVSubNoOverflow(x, y))
            udf = z3.Not(z3.BVSubNoUnderflow(x, y, True))
        return Int(bits, True, z3.If(ovf, z3.BitVecVal(hi, bits), z3.If(udf, z3.BitVecVal(lo, bits), r)))
    return f


# ------------------------------------------------------------------------------ rusqlite as a may-fail no-op
def sql_prepare(ctx, args, ci, dt):
    ctx.assumptions.add('rusqlite: prepare/execute are no-ops that may fail (symbolic outcome); SQL effects are outside every claim')
    if ctx.branch(ctx.fresh_bool('sql_prepare_ok')):
        return ok(Opaque('statement'))
    return err(Opaque('rusqlite::Error'))


def sql_execute(ctx, args, ci, dt):
    ctx.events.append(('sql_execute',))
    if ctx.branch(ctx.fresh_bool('sql_execute_ok')):
        return ok(ctx.fresh_int('sql_rows', 'usize'))
    return err(Opaque('rusqlite::Error'))


# ------------------------------------------------------------------------------ format!() (1.9x template lowering)
def fmt_arg_new(ctx, args, ci, dt):
    return Opaque('fmtarg', (ci.method, deref(args[0])))


def fmt_args_new(ctx, args, ci, dt):
    tmpl = deref(args[0])
    arr = deref(args[1]) if len(args) > 1 else None
    items = []
    if arr is not None:
        items = [c.v for c in ctx.elems_of(arr)]
    return Opaque('fmtargs', (tmpl.lit, items))


def fmt_args_from_str(ctx, args, ci, dt):
    sv = deref(args[0])
    return Opaque('fmtargs', (None, [sv]))


def display_of(ctx, v):
    """Display rendering of a value as python bytes, or None if not concrete"""
    v = deref(v)
    if isinstance(v, S):
        return v.lit
    if isinstance(v, Int):
        return str(v.v).encode() if v.concrete else None
    if isinstance(v, bool):
        return b'true' if v else b'false'
    return None


def fmt_format(ctx, args, ci, dt):
    a = args[0]
    tmpl, items = a.data
    if tmpl is None:
        sv = items[0]
        return S(lit=sv.lit, atom=sv.atom, seq=sv.seq, text=True)
    pieces = []          # python bytes or S (symbolic sequence)
    out = b''
    i = 0
    nxt = 0
    ok_ = True
    while i < len(tmpl):
        b = tmpl[i]
        i += 1
        if b == 0:
            break
        if b < 0x80:
            out += tmpl[i:i + b]
            i += b
        elif b == 0x80:
            n = tmpl[i] | (tmpl[i + 1] << 8)
            i += 2
            out += tmpl[i:i + n]
            i += n
        elif b >= 0xC0:
            opts = b & 0x3f
            if opts & 1:
                i += 4
            if opts & 2:
                i += 2
            if opts & 4:
                i += 2
            if opts & 8:
                idx = tmpl[i] | (tmpl[i + 1] << 8)
                i += 2
            else:
                idx = nxt
                nxt += 1
            if idx >= len(items):
                raise ctx_unsupported('format template argument index')
            kind, val = items[idx].data
            r = display_of(ctx, val) if kind == 'new_display' else None
            if r is None:
                dv = deref(val)
                if kind == 'new_display' and isinstance(dv, S) and dv.seq is not None:
                    pieces.append(out)
                    pieces.append(dv)
                    out = b''
                else:
                    ok_ = False
            else:
                out += r
        else:
            raise ctx_unsupported('format template byte 0x%x' % b)
    if ok_ and not pieces:
        return S(lit=out, text=True)
    if ok_:
        pieces.append(out)
        acc = None
        for pc in pieces:
            sv = pc if isinstance(pc, S) else S(lit=pc, text=True)
            if isinstance(pc, bytes) and not pc:
                continue
            acc = sv if acc is None else s_concat(acc, sv)
        return acc if acc is not None else S(lit=b'', text=True)
    return S(label=('formatted-text',), text=True)


def bool_to_string(ctx, args, ci, dt):
    v = deref(args[0])
    if isinstance(v, bool):
        return S(lit='true' if v else 'false', text=True)
    return S(seq=z3.If(v, lit_seq(b'true'), lit_seq(b'false')), text=True)


def float_to_string(ctx, args, ci, dt):
    v = deref(args[0])
    if isinstance(v, Opaque) and v.tag == 'float' and v.data is not None:
        return S(lit=repr(v.data), text=True)
    return S(label=('float-text',), text=True)


def it_peekable(ctx, args, ci, dt):
    it = args[0]
    return IterV(list(it.items), 'peekable')


def it_peek(ctx, args, ci, dt):
    it = deref(args[0])
    if not it.items:
        return none()
    return some(Ref(Cell(it.items[0])))


def it_take(ctx, args, ci, dt):
    it = args[0]
    n = ctx.concretize_int(args[1], 'take')
    return IterV(list(it.items[:n]), it.kind)


def int_to_string(ctx, args, ci, dt):
    v = deref(args[0])
    if v.concrete:
        return S(lit=str(v.v), text=True)
    return S(label=('int-text', v), text=True)


def opaque_to_string(ctx, args, ci, dt):
    return S(label=('display-text',), text=True)


def str_parse(ctx, args, ci, dt):
    sv = deref(args[0])
    g = ci.generics
    t = (g[3:-1] if g.startswith('::<') else g[1:-1]).strip()
    if sv.lit is None or t not in INT_TYPES:
        raise ctx_unsupported('parse::<%s> of %r' % (t, sv))
    try:
        n = int(sv.lit.decode())
        b, sg = INT_TYPES[t]
        lo, hi = (-(1 << (b - 1)), (1 << (b - 1)) - 1) if sg else (0, (1 << b) - 1)
        if not (lo <= n <= hi) or (sv.lit[:1] == b'-' and not sg):
            raise ValueError
        return ok(mk_int(t, n))
    except ValueError:
        return err(Opaque('ParseIntError'))


def str_to_lowercase(ctx, args, ci, dt):
    sv = deref(args[0])
    if sv.lit is None:
        raise ctx_unsupported('to_lowercase of symbolic string')
    return S(lit=sv.lit.decode().lower(), text=True)


def hm_drain(ctx, args, ci, dt):
    m = deref(args[0])
    items = [tup(e[0], e[1].v) for e in m.entries] if not m.is_set else [e[0] for e in m.entries]
    m.entries.clear()
    return IterV(items, 'map')


def system_fields(ctx, args, ci, dt):
    """lazy_static SYSTEM_FIELDS: the key set is read from the source on every run"""
    import re as _re
    cached = getattr(ctx, '_system_fields', None)
    if cached is None:
        raw = None
        for rel, (r, src) in ctx.src.files.items():
            if rel.endswith('data_model_parser.rs'):
                raw = src
        i = raw.index('SYSTEM_FIELDS')
        j = raw.index('};', i)
        names = _re.findall(r'fields\.insert\(\s*(\w+)\.to_string\(\)', raw[i:j])
        m = MapV()
        for n in names:
            sc = ctx.index.simple_consts.get(n)
            ty, val = next(iter(sc))
            m.entries.append([S(lit=val.strip('"'), text=True), Cell(Opaque('system-field', n))])
        if not m.entries:
            raise ctx_unsupported('SYSTEM_FIELDS not found in source')
        cached = m
        ctx._system_fields = m
    return Ref(Cell(cached))


# ------------------------------------------------------------------------------ Range / VecDeque
def range_into_iter(ctx, args, ci, dt):
    return args[0]


def range_next(ctx, args, ci, dt):
    r = deref(args[0])
    a, b = r.fields[0], r.fields[1]
    lt = ctx.binop(None, 'Lt', a.v, b.v)
    if ctx.branch(lt):
        cur = a.v
        a.v = ctx.binop(None, 'Add', a.v, Int(a.v.bits, a.v.signed, 1))
        return some(cur)
    return none()


def vd_new(ctx, args, ci, dt):
    return VecV()


def vd_push_back(ctx, args, ci, dt):
    deref(args[0]).elems.append(Cell(args[1]))
    return UNIT


def vd_push_front(ctx, args, ci, dt):
    deref(args[0]).elems.insert(0, Cell(args[1]))
    return UNIT


def vd_pop_back(ctx, args, ci, dt):
    v = deref(args[0])
    if not v.elems:
        return none()
    return some(v.elems.pop().v)


def vd_pop_front(ctx, args, ci, dt):
    v = deref(args[0])
    if not v.elems:
        return none()
    return some(v.elems.pop(0).v)


def vd_iter(ctx, args, ci, dt):
    return IterV([Ref(c) for c in deref(args[0]).elems], 'slice')


# ------------------------------------------------------------------------------ async plumbing (first poll segment)
class SegmentEnd(Exception):
    """the first suspension / observable asynchronous call was reached: the segment under analysis ends here"""

    def __init__(self, why):
        Exception.__init__(self, why)
        self.why = why


def mutex_lock(ctx, args, ci, dt):
    return Opaque('mutex-lock-future', deref(args[0]))


def into_future(ctx, args, ci, dt):
    return args[0]


def pin_new(ctx, args, ci, dt):
    return Struct('Pin', [Cell(args[0])])


def future_poll(ctx, args, ci, dt):
    pinned = args[0]
    fut = deref(pinned.fields[0].v) if isinstance(pinned, Struct) and pinned.name == 'Pin' else deref(pinned)
    if isinstance(fut, Opaque) and fut.tag == 'mutex-lock-future':
        ctx.assumptions.add('tokio::sync::Mutex::lock is polled uncontended: Ready(guard)')
        return Enum('Poll', 0, 'Ready', [Cell(Opaque('mutex-guard', fut.data))])
    if isinstance(fut, Opaque) and fut.tag == 'ready-future':
        return Enum('Poll', 0, 'Ready', [Cell(fut.data)])
    if isinstance(fut, Coroutine):
        return ctx.poll(fut)
    raise SegmentEnd('poll of %r' % (fut,))


def guard_deref(ctx, args, ci, dt):
    g = deref(args[0])
    m = g.data           # Opaque('mutex', Cell(value)) or the protected value itself
    if isinstance(m, Opaque) and m.tag == 'mutex':
        return Ref(m.data)
    return Ref(Cell(m))


def guard_deref_mut(ctx, args, ci, dt):
    g = deref(args[0])
    m = g.data
    if isinstance(m, Opaque) and m.tag == 'mutex':
        return Ref(m.data, True)
    raise ctx_unsupported('deref_mut of a guard over %r' % (m,))


def atomic_store(ctx, args, ci, dt):
    a = deref(args[0])
    if isinstance(a, Opaque) and a.tag == 'atomic':
        a.data = args[1]
        return UNIT
    raise ctx_unsupported('atomic store on %r' % (a,))


def atomic_load(ctx, args, ci, dt):
    a = deref(args[0])
    if isinstance(a, Opaque) and a.tag == 'atomic':
        return a.data
    return a


def bytes_try_into(ctx, args, ci, dt):
    """<Vec<u8> / &[u8] as TryInto<[u8; N]>>::try_into: Ok exactly when the length is N"""
    v = deref(args[0])
    m = re.search(r'TryInto<\[u8; (\d+)\]>', ci.trait or '')
    if not m:
        m = re.search(r'\[u8; (\d+)\]', dt or '')
    if not m:
        raise ctx_unsupported('try_into target unknown: %s' % ci.raw)
    n = int(m.group(1))
    ln = s_len(v)
    if isinstance(ln, int):
        return ok(v) if ln == n else err(v)
    cond = (ln == n) if not z3.is_bv(ln) else (ln == z3.BitVecVal(n, 64))
    if ctx.branch(cond):
        return ok(S(lit=v.lit, atom=v.atom, seq=v.seq, n=n))
    return err(v)


def m_panic(ctx, args, ci, dt):
    msg = args[0].lit.decode() if args and isinstance(args[0], S) and args[0].lit is not None else 'panic'
    raise panic(msg)


def m_panic_fmt(ctx, args, ci, dt):
    raise panic('panic (formatted)')


def mem_take(ctx, args, ci, dt):
    c = args[0].cell
    v = c.v
    g = ci.generics
    t = (g[3:-1] if g.startswith('::<') else g[1:-1]) if g else dt
    c.v = default_for_type(ctx, t)
    return v


def mem_replace(ctx, args, ci, dt):
    c = args[0].cell
    v = c.v
    c.v = args[1]
    return v


def mem_swap(ctx, args, ci, dt):
    a, b = args[0].cell, args[1].cell
    a.v, b.v = b.v, a.v
    return UNIT


def mem_drop(ctx, args, ci, dt):
    return UNIT


def box_new_uninit(ctx, args, ci, dt):
    """`vec![a, b]` lowers to Box::<[T; N]>::new_uninit() + a write through the raw pointer + box_assume_init_into_vec_unsafe"""
    return Ref(Cell(None), True)


def box_into_vec(ctx, args, ci, dt):
    inner = args[0].cell.v
    try:
        arr = inner.fields[1].v.fields[0].v.fields[0].v
    except (AttributeError, IndexError):
        raise ctx_unsupported('box_assume_init_into_vec_unsafe on %r' % (inner,))
    if isinstance(arr, S):
        return arr
    return VecV(list(ctx.elems_of(arr)))


def box_new(ctx, args, ci, dt):
    return args[0]


def arc_new(ctx, args, ci, dt):
    return Ref(Cell(args[0]))


def arc_deref(ctx, args, ci, dt):
    v = args[0]
    if isinstance(v, Ref) and isinstance(v.cell.v, Ref):
        return v.cell.v
    return v


def install(ctx):
    M = ctx.models
    St = ctx.stubs
    for k in ['<&Vec as IntoIterator>::into_iter', '<&mut Vec as IntoIterator>::into_iter', '<&[] as IntoIterator>::into_iter',
              '<&mut [] as IntoIterator>::into_iter', '<&[;] as IntoIterator>::into_iter']:
        M[k] = it_into_iter_ref_vec
    M['<Vec as IntoIterator>::into_iter'] = it_into_iter_vec
    M['<[;] as IntoIterator>::into_iter'] = it_into_iter_vec
    for k in ['<&HashMap as IntoIterator>::into_iter', '<&mut HashMap as IntoIterator>::into_iter',
              '<&HashSet as IntoIterator>::into_iter', '<&BTreeMap as IntoIterator>::into_iter']:
        M[k] = it_into_iter_ref_map
    M['<HashMap as IntoIterator>::into_iter'] = it_into_iter_map
    M['<HashSet as IntoIterator>::into_iter'] = it_into_iter_map
    for k in ['Iter', 'IterMut', 'IntoIter', 'Rev', 'Enumerate', 'Map', 'Cloned', 'Drain', 'Values', 'Keys', 'ValuesMut', 'Peekable', 'Copied', 'Zip', 'Filter', 'FilterMap', 'Skip', 'Take', 'Chain']:
        M['<%s as Iterator>::next' % k] = it_next
        M['<%s as IntoIterator>::into_iter' % k] = it_identity
        M['<%s as Iterator>::rev' % k] = it_rev
        M['<%s as Iterator>::find' % k] = it_find
        M['<%s as Iterator>::position' % k] = it_position
        M['<%s as Iterator>::any' % k] = it_any
        M['<%s as Iterator>::all' % k] = it_all
        M['<%s as Iterator>::enumerate' % k] = it_enumerate
        M['<%s as Iterator>::map' % k] = it_map
        M['<%s as Iterator>::filter_map' % k] = it_filter_map
        M.setdefault('<%s as Iterator>::filter' % k, it_filter)
        M.setdefault('<%s as Iterator>::skip' % k, it_skip)
        M['<%s as Iterator>::cloned' % k] = it_cloned
        M['<%s as Iterator>::copied' % k] = it_cloned
        M['<%s as Iterator>::collect' % k] = it_collect
        M['<%s as Iterator>::count' % k] = it_count
        M['<%s as Iterator>::zip' % k] = it_zip
        M['<%s as Iterator>::min' % k] = it_minmax('min')
        M['<%s as Iterator>::max' % k] = it_minmax('max')
        M['<%s as Iterator>::peekable' % k] = it_peekable
        M['<%s as Iterator>::take' % k] = it_take
        M['<%s as DoubleEndedIterator>::next_back' % k] = it_next_back
    M['Peekable::peek'] = it_peek
    M['[]::iter'] = slice_iter
    M['[]::iter_mut'] = slice_iter_mut
    M['[]::last'] = slice_last
    M['[]::first'] = slice_first
    M['[]::len'] = slice_len
    M['[]::is_empty'] = slice_is_empty
    M['[]::get'] = slice_get
    M['[]::sort_by'] = slice_sort_by
    M['[]::to_vec'] = to_vec
    M['[]::contains'] = vec_contains
    M['Option::is_none'] = opt_is_none
    M['Option::is_some'] = opt_is_some
    M['Option::as_ref'] = opt_as_ref
    M['Option::as_mut'] = opt_as_mut
    M['Option::unwrap'] = opt_unwrap
    M['Option::expect'] = opt_expect
    M['Option::unwrap_or'] = opt_unwrap_or
    M['Option::ok_or'] = opt_ok_or
    M['Option::take'] = opt_take
    M['Option::or'] = opt_or
    M['Option::map'] = opt_map
    M['Option::is_some_and'] = opt_is_some_and
    M['Option::and_then'] = opt_and_then
    M['Result::and_then'] = opt_and_then
    M['Option::is_none_or'] = opt_is_none_or
    M['Option::map_or'] = opt_map_or
    M['Result::unwrap'] = opt_unwrap
    M['Result::expect'] = opt_expect
    M['Result::unwrap_or'] = opt_unwrap_or
    M['Result::map_err'] = res_map_err
    M['Result::map'] = opt_map
    M['Result::is_ok'] = res_is_ok
    M['Result::is_err'] = res_is_err
    M['Result::ok'] = res_ok
    M['<Result as Try>::branch'] = try_branch
    M['<Option as Try>::branch'] = try_branch
    M['<Result as FromResidual>::from_residual'] = from_residual
    M['<Option as FromResidual>::from_residual'] = from_residual
    for t in ['Option', 'String', 'Vec', 'HashMap', 'HashSet', '[;]', 'i64', 'bool', 'u8', 'usize', '()', 'Result', 'u64', 'i32', 'u32', 'Box', 'Sender', 'UnboundedSender', 'Arc']:
        M['<%s as Clone>::clone' % t] = clone_model
    M['<_ as Default>::default'] = default_model
    M['<String as Deref>::deref'] = str_value
    M['<String as AsRef>::as_ref'] = str_value
    M['<String as Borrow>::borrow'] = str_value
    M['String::as_str'] = str_value
    M['String::as_bytes'] = str_value
    M['String::into_bytes'] = str_value
    M['str::as_bytes'] = str_value
    M['String::is_empty'] = str_is_empty
    M['str::is_empty'] = str_is_empty
    M['String::len'] = str_len
    M['str::len'] = str_len
    M['<String as From>::from'] = str_to_string
    M['<HashSet as From>::from'] = set_from_array
    M['<HashMap as From>::from'] = set_from_array
    M['<str as ToString>::to_string'] = str_to_string
    M['<String as ToString>::to_string'] = str_to_string
    M['<str as ToOwned>::to_owned'] = str_to_string
    M['<String as ToOwned>::to_owned'] = str_to_string
    M['str::to_string'] = str_to_string
    M['str::to_owned'] = str_to_string
    M['String::new'] = string_new
    M['String::push_str'] = string_push_str
    M['String::push'] = string_push
    for t in ['str', 'String', 'Vec', '[;]', '[]', '&str', '&String', '&Vec', '&[;]', '&[]']:
        M['<%s as PartialEq>::eq' % t] = str_eq if t in ('str', 'String', '&str', '&String') else vec_eq
        M['<%s as PartialEq>::ne' % t] = str_ne
    M['<HashMap as PartialEq>::eq'] = hm_eq
    M['<HashSet as PartialEq>::eq'] = hm_eq
    for t in ['i64', 'u64', 'usize', 'u8', 'bool', 'i32', 'u32', '&i64', '&usize']:
        M['<%s as PartialEq>::eq' % t] = int_eq
        M['<%s as Ord>::cmp' % t] = int_cmp
    M['Vec::new'] = vec_new
    M['Vec::with_capacity'] = vec_with_capacity
    M['Vec::push'] = vec_push
    M['Vec::append'] = vec_append
    M['<Vec as Extend>::extend'] = vec_extend
    M['Vec::extend_from_slice'] = vec_extend
    M['Vec::is_empty'] = vec_is_empty
    M['Vec::len'] = vec_len
    M['<Vec as Deref>::deref'] = vec_deref
    M['<Vec as DerefMut>::deref_mut'] = vec_deref
    M['<Vec as AsRef>::as_ref'] = vec_deref
    M['Vec::as_slice'] = vec_deref
    M['Vec::clear'] = vec_clear
    M['Vec::pop'] = vec_pop
    M['Vec::remove'] = vec_remove
    M['Vec::retain'] = vec_retain
    M['Vec::insert'] = vec_insert
    M['Vec::contains'] = vec_contains
    M['<Vec as Index>::index'] = vec_index
    M['<Vec as IndexMut>::index_mut'] = vec_index
    M['i64::to_le_bytes'] = i64_to_le_bytes
    M['u64::to_le_bytes'] = i64_to_le_bytes
    for _t in ('u8', 'u16', 'u32', 'i8', 'i16', 'i32', 'u128', 'i128', 'usize', 'isize'):
        M[_t + '::to_le_bytes'] = i64_to_le_bytes
        M[_t + '::to_be_bytes'] = i64_to_be_bytes
    M['i64::to_be_bytes'] = i64_to_be_bytes
    M['<usize as AddAssign>::add_assign'] = add_assign
    M['<i64 as AddAssign>::add_assign'] = add_assign
    M['<i64 as Ord>::max'] = int_max
    M['<i64 as Ord>::min'] = int_min
    M['std::cmp::max'] = int_max
    M['cmp::max'] = int_max
    M['max'] = int_max
    M['cmp::min'] = int_min
    M['min'] = int_min
    for t in ['HashMap', 'HashSet']:
        M[t + '::new'] = hm_new
        M[t + '::with_capacity'] = hm_new
        M[t + '::get'] = hm_get
        M[t + '::get_mut'] = hm_get_mut
        M[t + '::contains_key'] = hm_contains_key
        M[t + '::contains'] = hm_contains_key
        M[t + '::insert'] = hm_insert
        M[t + '::remove'] = hm_remove
        M[t + '::entry'] = hm_entry
        M[t + '::len'] = hm_len
        M[t + '::is_empty'] = hm_is_empty
        M[t + '::iter'] = hm_iter
        M[t + '::iter_mut'] = hm_iter_mut
        M[t + '::values'] = hm_values
        M[t + '::values_mut'] = hm_values_mut
        M[t + '::keys'] = hm_keys
        M[t + '::clear'] = hm_clear
    M['Entry::or_default'] = hm_or_default
    M['Entry::or_insert'] = hm_or_insert
    M['Entry::or_insert_with'] = hm_or_insert_with
    M['serde_json::from_str'] = json_from_str
    M['serde_json::to_string'] = json_to_string
    M['Value::as_object'] = json_as_object
    M['Map::get'] = json_map_get
    M['Value::as_str'] = json_as_str
    M['Value::as_bool'] = json_as_bool
    M['Value::as_array'] = json_as_array
    M['Value::as_i64'] = json_as_i64
    M['Hasher::new'] = hasher_new
    M['Hasher::update'] = hasher_update
    M['Hasher::finalize'] = hasher_finalize
    M['Hash::as_bytes'] = hash_as_bytes
    M['Connection::prepare_cached'] = sql_prepare
    M['Connection::prepare'] = sql_prepare
    M['Statement::execute'] = sql_execute
    M['CachedStatement::execute'] = sql_execute
    M['Connection::execute'] = sql_execute
    M['<CachedStatement as Deref>::deref'] = into_identity
    M['<CachedStatement as DerefMut>::deref_mut'] = into_identity
    M['Argument::new_display'] = fmt_arg_new
    M['Argument::new_debug'] = fmt_arg_new
    M['Argument::new_lower_hex'] = fmt_arg_new
    M['Arguments::new'] = fmt_args_new
    M['Arguments::from_str'] = fmt_args_from_str
    M['fmt::format'] = fmt_format
    M['std::fmt::format'] = fmt_format
    M['must_use'] = into_identity
    for t in ['usize', 'i64', 'u64', 'u32', 'i32']:
        M['<%s as ToString>::to_string' % t] = int_to_string
    M['<FieldType as ToString>::to_string'] = opaque_to_string
    M['<bool as ToString>::to_string'] = bool_to_string
    M['<f64 as ToString>::to_string'] = float_to_string
    M['<char as ToString>::to_string'] = opaque_to_string
    M['str::parse'] = str_parse
    M['str::to_lowercase'] = str_to_lowercase
    M['HashMap::drain'] = hm_drain
    M['HashSet::drain'] = hm_drain
    M['<SYSTEM_FIELDS as Deref>::deref'] = system_fields
    M['<&String as PartialEq>::eq'] = str_eq
    M['<Range as IntoIterator>::into_iter'] = range_into_iter
    M['<Range as Iterator>::next'] = range_next
    M['VecDeque::new'] = vd_new
    M['VecDeque::len'] = vec_len
    M['VecDeque::is_empty'] = vec_is_empty
    M['VecDeque::push_back'] = vd_push_back
    M['VecDeque::push_front'] = vd_push_front
    M['VecDeque::pop_back'] = vd_pop_back
    M['VecDeque::pop_front'] = vd_pop_front
    M['VecDeque::iter'] = vd_iter
    M['<VecDeque as Clone>::clone'] = clone_model
    M['<&VecDeque as IntoIterator>::into_iter'] = it_into_iter_ref_vec
    M['<VecDeque as IntoIterator>::into_iter'] = it_into_iter_vec
    M['Mutex::lock'] = mutex_lock
    M['<{closure} as IntoFuture>::into_future'] = into_future
    M['<_ as IntoFuture>::into_future'] = into_future
    M['Pin::new_unchecked'] = pin_new
    M['<_ as Future>::poll'] = future_poll
    M['<MutexGuard as Deref>::deref'] = guard_deref
    M['Atomic::load'] = atomic_load
    M['Atomic::store'] = atomic_store
    M['AtomicBool::store'] = atomic_store
    M['<MutexGuard as DerefMut>::deref_mut'] = guard_deref_mut
    M['AtomicBool::load'] = atomic_load
    M['<Vec as TryInto>::try_into'] = bytes_try_into
    M['<&[] as TryInto>::try_into'] = bytes_try_into
    M['panic'] = m_panic
    M['panicking::panic'] = m_panic
    M['panic_fmt'] = m_panic_fmt
    M['panicking::panic_fmt'] = m_panic_fmt
    M['mem::take'] = mem_take
    M['mem::replace'] = mem_replace
    M['mem::swap'] = mem_swap
    M['mem::drop'] = mem_drop
    M['<Box as Drop>::drop'] = mem_drop
    M['<_ as Drop>::drop'] = mem_drop
    M['drop'] = mem_drop
    M['Box::new'] = box_new
    M['Box::new_uninit'] = box_new_uninit
    M['box_assume_init_into_vec_unsafe'] = box_into_vec
    M['boxed::box_assume_init_into_vec_unsafe'] = box_into_vec
    M['Arc::new'] = arc_new
    M['<Arc as Deref>::deref'] = arc_deref
    M['<Box as Deref>::deref'] = arc_deref
    M['<_ as Into>::into'] = into_identity
    # environment stubs: keyed by normalised callee or by 'fn:<tail of MIR name>'
    St['date_utils::now'] = stub_now
    St['now'] = stub_now
    St['base64_encode'] = stub_base64_encode
    St['security::base64_encode'] = stub_base64_encode
    St['base64_decode'] = stub_base64_decode
    St['security::base64_decode'] = stub_base64_decode
    St['<impl SigningKey as SigningKey>::export_verifying_key'] = stub_export_verifying_key
    St['<Ed25519SigningKey as SigningKey>::export_verifying_key'] = stub_export_verifying_key
    St['Ed25519SigningKey::export_verifying_key'] = stub_export_verifying_key
    St['<impl SigningKey as SigningKey>::sign'] = stub_sign
    St['<Ed25519SigningKey as SigningKey>::sign'] = stub_sign
    St['bincode::serialized_size'] = stub_serialized_size
    M['DateTime::from_timestamp_millis'] = chrono_from_timestamp_millis
    M['DateTime::date_naive'] = chrono_date_naive
    M['NaiveDate::and_hms_opt'] = chrono_and_hms_opt
    M['NaiveDateTime::and_utc'] = chrono_and_utc
    M['DateTime::timestamp_millis'] = chrono_timestamp_millis
    M['TimeDelta::days'] = chrono_days
    M['Duration::days'] = chrono_days
    M['<DateTime as Add>::add'] = chrono_add
    for t in ('i64',):
        M[t + '::rem_euclid'] = int_rem_euclid
        M[t + '::div_euclid'] = int_div_euclid
        M[t + '::saturating_add'] = int_saturating('add')
        M[t + '::saturating_sub'] = int_saturating('sub')
