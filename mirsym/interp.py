"""Bounded symbolic executor for the crate's MIR (see DESIGN.md, E1).

Exploration is stateless DFS by re-execution: a path is identified by its list of decisions;
after a path ends the deepest decision with an unexplored alternative is flipped and the
driver's path function is run again from the start, replaying the prefix.  Pure callees with
scalar results are explored in place and merged into one if-then-else term (see merged_call)."""
import re
import sys
import time
import z3

from .mir import MirModule, Place, split_top, match_close, scan, find_top, MirParseError
from .srcinfo import SrcInfo
from .values import *

sys.setrecursionlimit(20000)


class Panic(Exception):
    def __init__(self, msg, where=''):
        Exception.__init__(self, msg)
        self.msg = msg
        self.where = where


class Unsupported(Exception):
    pass


class Inconclusive(Exception):
    pass


class PathEnd(Exception):
    """the current path is abandoned (failed assumption / infeasible)"""
    pass


class MergeAbort(Exception):
    pass


STD_STRUCTS = {'Range': ['start', 'end'], 'RangeFrom': ['start'], 'RangeTo': ['end'], 'RangeInclusive': ['start', 'end', 'exhausted'], 'Pin': ['pointer']}

STD_ENUMS = {
    'Option': [('None', 0, []), ('Some', 1, ['0'])],
    'Result': [('Ok', 0, ['0']), ('Err', 1, ['0'])],
    'ControlFlow': [('Continue', 0, ['0']), ('Break', 1, ['0'])],
    'Ordering': [('Less', -1, []), ('Equal', 0, []), ('Greater', 1, [])],
    'Poll': [('Ready', 0, ['0']), ('Pending', 1, [])],
    'Cow': [('Borrowed', 0, ['0']), ('Owned', 1, ['0'])],
    'Entry': [('Occupied', 0, ['0']), ('Vacant', 1, ['0'])],
    'Value': [('Null', 0, []), ('Bool', 1, ['0']), ('Number', 2, ['0']), ('String', 3, ['0']), ('Array', 4, ['0']), ('Object', 5, ['0'])],
}


def strip_generics(p):
    """remove every <...> group and lifetimes from a type/path string"""
    out = []
    depth = 0
    i = 0
    n = len(p)
    while i < n:
        ch = p[i]
        if ch == '<':
            depth += 1
        elif ch == '>' and not (i > 0 and p[i - 1] in '-='):
            depth -= 1
        elif depth == 0:
            out.append(ch)
        i += 1
    s = ''.join(out)
    s = s.replace('::::', '::')
    while s.endswith('::'):
        s = s[:-2]
    return s


def last_seg(p):
    return strip_generics(p).rsplit('::', 1)[-1].strip()


def norm_ty(t):
    t = t.strip()
    pre = ''
    while True:
        if t.startswith('&mut '):
            pre += '&mut '
            t = t[5:].strip()
        elif t.startswith('&'):
            pre += '&'
            t = t[1:].strip()
            t = re.sub(r"^'\w+\s+", '', t)
        else:
            break
    if t.startswith('['):
        j = match_close(t, 0)
        inner = t[1:j]
        return pre + ('[;]' if find_top(inner, '; ') >= 0 else '[]')
    if t.startswith('('):
        return pre + '()'
    if t.startswith('dyn '):
        return pre + 'dyn ' + last_seg(t[4:].split(' + ')[0])
    if t.startswith('{'):
        return pre + '{closure}'
    if t.startswith('impl '):
        return pre + 'impl ' + last_seg(t[5:].split(' + ')[0])
    return pre + last_seg(t)


class CallInfo:
    __slots__ = ('raw', 'selfty', 'trait', 'quals', 'method', 'norm', 'generics', 'dest_ty', 'where')

    def __repr__(self):
        return 'Call(%s)' % self.raw


_callinfo_cache = {}


def parse_callee(path):
    ci = _callinfo_cache.get(path)
    if ci is not None:
        return ci
    ci = CallInfo()
    ci.raw = path
    ci.selfty = ci.trait = None
    ci.dest_ty = None
    ci.where = None
    p = path.strip()
    if p.startswith('<'):
        j = match_close(p, 0)
        inner = p[1:j]
        k = -1
        for idx, c in scan(inner):
            if inner.startswith(' as ', idx):
                k = idx
                break
        if k != -1:
            ci.selfty = inner[:k].strip()
            ci.trait = inner[k + 4:].strip()
        else:
            ci.selfty = inner.strip()
        rest = p[j + 1:]
    else:
        rest = p
    # split rest on top-level '::'
    segs = []
    last = 0
    depth = 0
    i = 0
    n = len(rest)
    while i < n:
        ch = rest[i]
        if ch in '<([{':
            depth += 1
        elif ch in ')]}':
            depth -= 1
        elif ch == '>' and not (i > 0 and rest[i - 1] in '-='):
            depth -= 1
        elif depth == 0 and rest.startswith('::', i):
            segs.append(rest[last:i])
            i += 2
            last = i
            continue
        i += 1
    segs.append(rest[last:])
    segs = [s for s in segs if s != '']
    gen = ''
    if segs and segs[-1].startswith('<'):
        gen = segs.pop()
    ci.generics = gen
    ci.method = segs[-1] if segs else ''
    quals = []
    for s in segs[:-1]:
        if s.startswith('<impl '):
            # e.g. core::slice::<impl [T]>::iter  /  core::str::<impl str>::len
            quals.append(norm_ty(s[6:-1]))
        elif s.startswith('<'):
            continue   # turbofish on a type segment
        else:
            quals.append(s)
    ci.quals = quals
    if ci.selfty is not None and ci.trait is not None:
        ci.norm = '<%s as %s>::%s' % (norm_ty(ci.selfty), last_seg(ci.trait), ci.method)
    elif ci.selfty is not None:
        ci.norm = '<%s>::%s' % (norm_ty(ci.selfty), ci.method)
    elif quals:
        ci.norm = '%s::%s' % (quals[-1], ci.method)
    else:
        ci.norm = ci.method
    _callinfo_cache[path] = ci
    return ci


class FuncIndex:
    def __init__(self, mod, src):
        self.mod = mod
        self.src = src
        self.by_method = {}
        self.closures = {}
        self.simple_consts = {}
        for f in mod.funcs.values():
            self._add(f)
        for line in mod.lines:
            if line.startswith('const ') and line.endswith(';') and ' = const ' in line:
                body = line[6:-1]
                k = find_top(body, ': ')
                e = body.find(' = const ', k if k != -1 else 0)
                if k != -1 and e != -1:
                    self.simple_consts.setdefault(body[:k].rsplit('::', 1)[-1], set()).add((body[k + 2:e], body[e + 9:]))

    def _add(self, f):
        name = f.name
        segs = []
        last = 0
        depth = 0
        i = 0
        n = len(name)
        while i < n:
            ch = name[i]
            if ch in '<([{':
                depth += 1
            elif ch in ')]}':
                depth -= 1
            elif ch == '>' and not (i > 0 and name[i - 1] in '-='):
                depth -= 1
            elif depth == 0 and name.startswith('::', i):
                segs.append(name[last:i])
                i += 2
                last = i
                continue
            i += 1
        segs.append(name[last:])
        f.segs = segs
        if segs[-1].startswith('{closure#') or segs[-1].startswith('{'):
            # closure / coroutine body: key by the closure type of arg 1
            if f.args:
                t = f.args[0][1]
                m = re.search(r'\{(closure|async fn body|async block|async closure|coroutine)[^{}]*\}', t)
                if m:
                    self.closures[m.group(0)] = f
            return
        if 'promoted[' in segs[-1]:
            return
        method = segs[-1]
        impl = None
        mods = []
        for s in segs[:-1]:
            if s.startswith('<impl at '):
                impl = s[9:-1]
            else:
                mods.append(s)
        f.method = method
        f.impl_span = impl
        f.mods = mods
        self.by_method.setdefault(method, []).append(f)

    def resolve(self, ci, args=None):
        cands = self.by_method.get(ci.method)
        if not cands:
            return None
        out = []
        if ci.trait is not None:
            st = last_seg(re.sub(r'^(&mut |&)+', '', ci.selfty.strip()))
            tr = last_seg(ci.trait)
            for f in cands:
                if f.impl_span:
                    ity, itr = self.src.impl_info(f.impl_span)
                    if itr == tr and ity == st:
                        out.append(f)
        else:
            q = ci.quals
            for f in cands:
                if f.impl_span:
                    ity, itr = self.src.impl_info(f.impl_span)
                    if q and ity == last_seg(q[-1]) and itr is None:
                        out.append(f)
                    elif q and ity == last_seg(q[-1]) and itr is not None and ci.selfty is None:
                        out.append(f)
                else:
                    if not q:
                        out.append(f)
                    else:
                        qq = [last_seg(x) for x in q]
                        if f.mods[-len(qq):] == qq:
                            out.append(f)
            if ci.selfty is not None and not out:
                st = last_seg(re.sub(r'^(&mut |&)+', '', ci.selfty.strip()))
                for f in cands:
                    if f.impl_span and self.src.impl_info(f.impl_span)[0] == st:
                        out.append(f)
        if len(out) == 1:
            return out[0]
        if len(out) > 1:
            # prefer inherent impls
            inh = [f for f in out if f.impl_span and self.src.impl_info(f.impl_span)[1] is None]
            if len(inh) == 1:
                return inh[0]
            if args is not None:
                same = [f for f in out if len(f.args) == len(args)]
                if len(same) == 1:
                    return same[0]
            raise Unsupported('ambiguous callee %s: %s' % (ci.raw, [f.name for f in out]))
        return None

    def resolve_dyn(self, tyname, trait, method):
        for f in self.by_method.get(method, []):
            if f.impl_span:
                ity, itr = self.src.impl_info(f.impl_span)
                if ity == tyname and itr == trait:
                    return f
        return None


class Stats:
    def __init__(self):
        self.paths = 0
        self.terminators = 0
        self.solver_calls = 0
        self.solver_s = 0.0
        self.merged_calls = 0
        self.sat = 0
        self.unsat = 0
        self.unknown = 0
        self.functions = {}

    def as_dict(self):
        return dict(paths=self.paths, terminators=self.terminators, solver_calls=self.solver_calls,
                    solver_s=round(self.solver_s, 3), merged_calls=self.merged_calls,
                    sat=self.sat, unsat=self.unsat, unknown=self.unknown)


class Decisions:
    """one DFS decision stack"""

    def __init__(self):
        self.trace = []   # [ [chosen, [remaining alternatives]] ]
        self.pos = 0
        self.seq = 0      # merged calls started on the current (sub)path at this level

    def key(self):
        return (tuple(e[0] for e in self.trace[:self.pos]), self.seq)

    def advance(self):
        while self.trace and not self.trace[-1][1]:
            self.trace.pop()
        if not self.trace:
            return False
        e = self.trace[-1]
        e[0] = e[1].pop(0)
        return True


class Ctx:
    def __init__(self, mod, src, timeout_ms=60000):
        self.mod = mod
        self.src = src
        self.index = FuncIndex(mod, src)
        self.models = {}
        self.stubs = {}
        self.stats = Stats()
        self.solver = z3.Solver()
        self.solver.set('timeout', timeout_ms)
        self.main_solver = self.solver
        self.timeout_ms = timeout_ms
        self.dec = Decisions()
        self.dec_stack = []
        self.merge_cache = {}
        self.models_cache = []
        self.msolvers = []
        self.merge_assumptions = []
        self.pc = []
        self.fresh_n = 0
        self.merge_depth = 0
        self.no_merge = set()
        self.mergeable_cache = {}
        self.events = []          # observable events recorded by stubs (per path)
        self.day_terms = []
        self.assumptions = set()
        self.used_models = set()
        self.map_order = 'fixed'  # or 'all'
        self.depth = 0
        self.trace_calls = False
        self.enable_merge = True
        self.call_hooks = {}      # func name -> python callable(ctx, args) run instead of MIR
        from . import models
        models.install(self)

    # ------------------------------------------------------------------ exploration
    def explore(self, path_fn, max_paths=None):
        """run path_fn(ctx) once per feasible path"""
        self.dec = Decisions()
        self.dec_stack = []
        self.merge_cache = {}
        self.merge_depth = 0
        self.depth = 0
        self.solver = self.main_solver
        n = 0
        while True:
            self._begin_path()
            try:
                path_fn(self)
            except PathEnd:
                pass
            self.stats.paths += 1
            n += 1
            if max_paths and n >= max_paths:
                raise Inconclusive('path budget exceeded (%d)' % max_paths)
            if not self.dec.advance():
                break
        return n

    def _begin_path(self):
        self.solver.reset()
        self.solver.set('timeout', self.timeout_ms)
        self.pc = []
        self.dec.pos = 0
        self.dec.seq = 0
        self.fresh_n = 0
        self.events = []
        self.depth = 0
        self.models_cache = []
        self.day_terms = []

    def fresh(self, name, sort):
        if self.merge_depth:
            raise MergeAbort()
        self.fresh_n += 1
        return z3.Const('%s!%d' % (name, self.fresh_n), sort)

    def fresh_int(self, name, ty):
        b, s = INT_TYPES[ty]
        return Int(b, s, self.fresh(name, z3.BitVecSort(b)))

    def fresh_bool(self, name):
        return self.fresh(name, z3.BoolSort())

    def add(self, cond):
        """add a global fact / assumption (stubs, drivers).  Inside a merged call it is hoisted to the caller."""
        if isinstance(cond, bool):
            if not cond:
                raise PathEnd()
            return
        if self.merge_depth:
            self.merge_assumptions.append(cond)
        self._add(cond)

    def _add(self, cond):
        self.pc.append(cond)
        self.solver.add(cond)
        if self.models_cache:
            self.models_cache = [m for m in self.models_cache if z3.is_true(m.eval(cond, model_completion=True))]

    def assume(self, cond):
        """driver-side assumption: abandon the path if it cannot hold"""
        if isinstance(cond, bool):
            if not cond:
                raise PathEnd()
            return
        c = z3.simplify(cond)
        if z3.is_true(c):
            return
        if z3.is_false(c):
            raise PathEnd()
        if self.dec.pos >= len(self.dec.trace):
            if not self._check(c):
                raise PathEnd()
        self.add(c)

    def _check(self, *conds):
        t0 = time.time()
        r = self.solver.check(*conds)
        self.stats.solver_calls += 1
        self.stats.solver_s += time.time() - t0
        if r == z3.unknown:
            self.stats.unknown += 1
            raise Inconclusive('solver returned unknown: %s' % self.solver.reason_unknown())
        if r == z3.sat and len(self.models_cache) < 12:
            self.models_cache.append(self.solver.model())
        return r == z3.sat

    def _feasible_both(self, c):
        t = f = False
        for m in self.models_cache:
            v = m.eval(c, model_completion=True)
            if z3.is_true(v):
                t = True
            elif z3.is_false(v):
                f = True
            if t and f:
                return True, True
        if not t:
            t = self._check(c)
        if not f:
            f = self._check(z3.Not(c))
        return t, f

    def check_sat(self, cond):
        """is pc ∧ cond satisfiable?  returns model or None"""
        if isinstance(cond, bool):
            if not cond:
                self.stats.unsat += 1
                return None
            cond = z3.BoolVal(True)
        if self._check(cond):
            self.stats.sat += 1
            return self.solver.model()
        self.stats.unsat += 1
        return None

    def branch(self, cond):
        """fork on a boolean; returns the python bool of the side taken on this path"""
        if isinstance(cond, bool):
            return cond
        c = z3.simplify(cond)
        if z3.is_true(c):
            return True
        if z3.is_false(c):
            return False
        d = self.dec
        if d.pos < len(d.trace):
            v = d.trace[d.pos][0]
            d.pos += 1
            if v is not None:
                self._add(c if v else z3.Not(c))
                return v
            raise RuntimeError('bad decision')
        t, f = self._feasible_both(c)
        if t and f:
            d.trace.append([True, [False]])
            d.pos += 1
            self._add(c)
            return True
        if t:
            d.trace.append([True, []])
            d.pos += 1
            self._add(c)
            return True
        if f:
            d.trace.append([False, []])
            d.pos += 1
            self._add(z3.Not(c))
            return False
        raise PathEnd()

    def choose(self, n, label=''):
        """nondeterministic choice 0..n-1 (all explored)"""
        if n <= 1:
            return 0
        d = self.dec
        if d.pos < len(d.trace):
            v = d.trace[d.pos][0]
            d.pos += 1
            return v
        d.trace.append([0, list(range(1, n))])
        d.pos += 1
        return 0

    def concretize_int(self, iv, what='value', limit=64):
        """fork over the feasible concrete values of a symbolic integer"""
        if iv.concrete:
            return iv.v
        d = self.dec
        if d.pos < len(d.trace):
            v = d.trace[d.pos][0]
            d.pos += 1
            self._add(iv.v == z3.BitVecVal(v, iv.bits))
            return v
        vals = []
        self.solver.push()
        try:
            while self._check():
                m = self.solver.model()
                x = m.eval(iv.v, model_completion=True).as_long()
                vals.append(x)
                if len(vals) > limit:
                    raise Inconclusive('too many values for %s' % what)
                self.solver.add(iv.v != z3.BitVecVal(x, iv.bits))
        finally:
            self.solver.pop()
        if not vals:
            raise PathEnd()
        vals.sort()
        d.trace.append([vals[0], vals[1:]])
        d.pos += 1
        self._add(iv.v == z3.BitVecVal(vals[0], iv.bits))
        return Int(iv.bits, iv.signed, vals[0]).v

    # ------------------------------------------------------------------ function lookup
    def func(self, suffix):
        """find a crate function by the tail of its MIR name (must be unique)"""
        hits = [f for n, f in self.mod.funcs.items() if n == suffix or n.endswith('::' + suffix) or n.endswith('>::' + suffix)]
        if not hits:
            hits = [f for n, f in self.mod.funcs.items() if n.endswith(suffix)]
        if len(hits) != 1:
            raise Inconclusive('entry function %r: %d matches %s' % (suffix, len(hits), [h.name for h in hits][:5]))
        return self.mod.parse_body(hits[0])

    def method(self, tyname, method, trait=None):
        """find an impl method by self type / trait / name"""
        hits = []
        for f in self.index.by_method.get(method, []):
            if f.impl_span:
                ity, itr = self.src.impl_info(f.impl_span)
                if ity == tyname and itr == trait:
                    hits.append(f)
        if len(hits) != 1:
            raise Inconclusive('method %s::%s (trait %s): %d matches' % (tyname, method, trait, len(hits)))
        return self.mod.parse_body(hits[0])

    def free_fn(self, module, name):
        hits = [f for f in self.index.by_method.get(name, []) if not f.impl_span and f.mods and f.mods[-1] == module]
        if not hits:
            # the dump prints some module-level functions without their path
            hits = [f for f in self.index.by_method.get(name, []) if not f.impl_span and not f.mods and f.name == name]
        if len(hits) != 1:
            raise Inconclusive('function %s::%s: %d matches' % (module, name, len(hits)))
        return self.mod.parse_body(hits[0])

    # ------------------------------------------------------------------ execution
    def call(self, f, args):
        """execute crate function f (a Func) on argument values"""
        if isinstance(f, str):
            f = self.func(f)
        if f.name in self.call_hooks:
            return self.call_hooks[f.name](self, args)
        if self.enable_merge and self._mergeable(f):
            return self.merged_call(f, args)
        return self.exec_fn(f, args)

    def _mergeable(self, f):
        r = self.mergeable_cache.get(f.name)
        if r is None:
            r = False
            if f.kind == 'fn' and f.name not in self.no_merge:
                ret = f.ret.strip()
                if ret == 'bool' or ret in INT_TYPES:
                    r = True
                    for _, t in f.args:
                        t = t.strip()
                        if t.startswith('&mut') or 'mut ' in t.split('<')[0]:
                            r = False
                        if t.startswith('{') or 'closure' in t:
                            r = False
            self.mergeable_cache[f.name] = r
        return r and f.name not in self.no_merge

    def val_key(self, v, keep, seen):
        """structural identity of a value and everything reachable from it (z3 terms by AST id)"""
        if v is None:
            return None
        t = type(v)
        if t is bool:
            return v
        if t is Int:
            if isinstance(v.v, int):
                return ('i', v.bits, v.v)
            keep.append(v.v)
            return ('i', v.bits, v.signed, 'z', v.v.get_id())
        if t is S:
            if v.lit is not None:
                return ('s', v.lit)
            if v.atom is not None:
                keep.append(v.atom)
                return ('sa', v.atom.get_id())
            if v.seq is not None:
                keep.append(v.seq)
                return ('sq', v.seq.get_id())
            keep.append(v)
            return ('sl', id(v))
        if t is UnitT:
            return ()
        if t is Struct:
            return ('S', v.name, tuple(self.val_key(c.v, keep, seen) for c in v.fields))
        if t is Enum:
            return ('E', v.name, v.variant, tuple(self.val_key(c.v, keep, seen) for c in v.fields))
        if t is Ref:
            cid = id(v.cell)
            if cid in seen:
                return ('&cyc', seen[cid])
            seen[cid] = len(seen)
            return ('&', self.val_key(v.cell.v, keep, seen))
        if t is VecV or t is SliceV:
            return ('V', tuple(self.val_key(c.v, keep, seen) for c in v.elems))
        if t is MapV:
            return ('M', v.is_set, tuple((self.val_key(k, keep, seen), self.val_key(c.v, keep, seen)) for k, c in v.entries))
        if t is Opaque:
            if isinstance(v.data, (S, Int)) or v.data is None:
                return ('O', v.tag, self.val_key(v.data, keep, seen))
            keep.append(v)
            return ('O', v.tag, id(v))
        if t is FnItem:
            return ('F', v.path)
        if t is IterV:
            return ('I', v.kind, tuple(self.val_key(x, keep, seen) for x in v.items))
        if z3.is_expr(v):
            keep.append(v)
            return ('z', v.get_id())
        keep.append(v)
        return ('?', id(v))

    def merged_call(self, f, args):
        """explore all paths of a pure scalar-valued call (context-free) and return one merged term;
        results are cached by the structural content of the arguments"""
        keep = []
        ckey = (f.name, tuple(self.val_key(a, keep, {}) for a in args))
        cached = self.merge_cache.get(ckey)
        if cached is None:
            res = self._merged_explore(f, args, self.dec)
            if res is None:
                return self.exec_fn(f, args)
            cached = (res, keep)
            self.merge_cache[ckey] = cached
        panic_conds, value, assumptions = cached[0]
        for a in assumptions:
            self.add(a)
        for cond, p in panic_conds:
            if self.branch(cond):
                raise p
        if value is None:
            raise PathEnd()
        return value

    def _merged_explore(self, f, args, outer):
        sub = Decisions()
        self.dec_stack.append(outer)
        self.dec = sub
        self.merge_depth += 1
        results = []
        base_pc = len(self.pc)
        saved_events = self.events
        saved_models = self.models_cache
        saved_solver = self.solver
        # context-free: a fresh solver level without the caller's path condition
        while len(self.msolvers) < self.merge_depth:
            ms = z3.Solver()
            ms.set('timeout', self.timeout_ms)
            self.msolvers.append(ms)
        self.solver = self.msolvers[self.merge_depth - 1]
        self.solver.reset()
        self.solver.set('timeout', self.timeout_ms)
        saved_models = self.models_cache
        self.models_cache = []
        saved_assumptions = self.merge_assumptions
        self.merge_assumptions = []
        try:
            while True:
                sub.pos = 0
                sub.seq = 0
                self.solver.push()
                self.events = []
                self.models_cache = []
                try:
                    try:
                        v = self.exec_fn(f, [clone_val(a) for a in args])
                        results.append((self.pc[base_pc:], v, None))
                    except Panic as p:
                        results.append((self.pc[base_pc:], None, p))
                    except PathEnd:
                        # an abandoned sub-path would make the merged term partial: execute unmerged instead
                        raise MergeAbort()
                    if self.events:
                        raise MergeAbort()
                finally:
                    del self.pc[base_pc:]
                    self.solver.pop()
                if not sub.advance():
                    break
        except MergeAbort:
            self.no_merge.add(f.name)
            self.dec = outer
            self.dec_stack.pop()
            self.merge_depth -= 1
            self.events = saved_events
            self.models_cache = saved_models
            self.solver = saved_solver
            self.merge_assumptions = saved_assumptions
            return None
        except BaseException:
            self.dec = outer
            self.dec_stack.pop()
            self.merge_depth -= 1
            self.events = saved_events
            self.models_cache = saved_models
            self.solver = saved_solver
            self.merge_assumptions = saved_assumptions
            raise
        self.dec = outer
        self.dec_stack.pop()
        self.merge_depth -= 1
        self.events = saved_events
        self.models_cache = saved_models
        self.solver = saved_solver
        assumptions = []
        for a in self.merge_assumptions:
            if not any(a.eq(b) for b in assumptions):
                assumptions.append(a)
        self.merge_assumptions = saved_assumptions
        self.stats.merged_calls += 1
        panic_conds = [(z3.And(*pc) if pc else z3.BoolVal(True), p) for pc, v, p in results if p is not None]
        oks = [(pc, v) for pc, v, p in results if p is None]
        if not oks:
            return panic_conds, None, assumptions
        if len(oks) == 1:
            return panic_conds, oks[0][1], assumptions
        ret = f.ret.strip()
        if ret == 'bool':
            allc = all(isinstance(v, bool) for _, v in oks)
            if allc and len(set(v for _, v in oks)) == 1:
                return panic_conds, oks[0][1], assumptions
            terms = []
            for pc, v in oks:
                if isinstance(v, bool) and not v:
                    continue
                c = list(pc)
                if not isinstance(v, bool):
                    c.append(v)
                if not c:
                    terms.append(z3.BoolVal(True))
                else:
                    terms.append(z3.And(*c) if len(c) != 1 else c[0])
            if not terms:
                return panic_conds, False, assumptions
            return panic_conds, (z3.simplify(z3.Or(*terms)) if len(terms) > 1 else terms[0]), assumptions
        b, sg = INT_TYPES[ret]
        acc = oks[-1][1].z()
        for pc, v in reversed(oks[:-1]):
            acc = z3.If(z3.And(*pc) if pc else z3.BoolVal(True), v.z(), acc)
        return panic_conds, Int(b, sg, z3.simplify(acc)), assumptions

    def exec_fn(self, f, args):
        if f.blocks is None:
            self.mod.parse_body(f)
        st = self.stats
        if f.name not in st.functions:
            st.functions[f.name] = self.mod.body_hash(f)
        if len(args) != len(f.args):
            raise Unsupported('arity mismatch calling %s: %d vs %d' % (f.name, len(args), len(f.args)))
        self.depth += 1
        if self.depth > 400:
            raise Inconclusive('call depth exceeded in %s' % f.name)
        if self.trace_calls:
            print('  ' * self.depth + '-> ' + f.name[-70:], file=sys.stderr)
        L = {}
        for (n, _), a in zip(f.args, args):
            L[n] = Cell(a)
        bb = 0
        blocks = f.blocks
        steps = 0
        try:
            while True:
                blk = blocks[bb]
                for stmt in blk.stmts:
                    k = stmt[0]
                    if k == 'assign':
                        v = self.rvalue(f, L, stmt[2])
                        self.place_cell(f, L, stmt[1], create=True).v = v
                    elif k == 'setdisc':
                        self.set_discriminant(f, L, stmt[1], stmt[2])
                    elif k == 'assume':
                        pass
                st.terminators += 1
                steps += 1
                if steps > 200000:
                    raise Inconclusive('step budget exceeded in %s' % f.name)
                t = blk.term
                k = t[0]
                if k == 'goto':
                    bb = t[1]
                elif k == 'call':
                    dest, callee, argops, ret_bb = t[1], t[2], t[3], t[4]
                    argv = [self.operand(f, L, a) for a in argops]
                    if callee[0] == 'path':
                        ci = parse_callee(callee[1])
                    else:
                        ci = None
                    dty = f.locals.get(dest.local) if not dest.projs else None
                    v = self.dispatch(f, ci, callee, argv, dty)
                    if ret_bb is None:
                        raise Unsupported('call to %s returned but has no return block' % (callee,))
                    self.place_cell(f, L, dest, create=True).v = v
                    bb = ret_bb
                elif k == 'switch':
                    bb = self.switch(f, L, t)
                elif k == 'return':
                    c = L.get(0)
                    return c.v if c is not None and c.v is not None else UNIT
                elif k == 'drop':
                    bb = t[2]
                elif k == 'assert':
                    cond = self.operand(f, L, t[1])
                    ok_ = cond if t[2] else b_not(cond)
                    if self.branch(ok_):
                        bb = t[4]
                    else:
                        raise Panic('assert failed: ' + t[3], f.name)
                elif k == 'unreachable':
                    raise Panic('reached `unreachable` terminator', f.name)
                elif k == 'resume':
                    raise Unsupported('resume reached in ' + f.name)
                elif k == 'yield':
                    raise Unsupported('yield in ' + f.name)
                else:
                    raise Unsupported('terminator %r' % (t,))
        finally:
            self.depth -= 1

    # ------------------------------------------------------------------ places & operands
    def place_cell(self, f, L, pl, create=False):
        c = L.get(pl.local)
        if c is None:
            c = Cell()
            L[pl.local] = c
        for pr in pl.projs:
            k = pr[0]
            v = c.v
            if k == 'deref':
                if isinstance(v, Ref):
                    c = v.cell
                elif v is None:
                    raise Unsupported('deref of uninitialised _%d in %s' % (pl.local, f.name))
                else:
                    # Box<T>, &str, &[u8]: the value stands for its target
                    pass
            elif k == 'field':
                idx = pr[1]
                if v is None:
                    if not create:
                        raise Unsupported('field of uninitialised _%d in %s' % (pl.local, f.name))
                    v = Struct('(partial)', [])
                    c.v = v
                ty_ = pr[2] if len(pr) > 2 and pr[2] else ''
                if isinstance(v, (Struct, Enum)) and ('Unique<' in ty_ or 'NonNull<' in ty_) and getattr(v, 'name', '') not in ('Box', 'Unique', 'NonNull', '(partial)'):
                    # Box<T> internals on a value that already stands for its content
                    continue
                if isinstance(v, (Struct, Enum)):
                    fl = v.fields
                    while len(fl) <= idx:
                        if not create:
                            raise Unsupported('field %d out of range on %r in %s' % (idx, v, f.name))
                        fl.append(Cell())
                    c = fl[idx]
                else:
                    c = self.special_field(f, c, v, idx, pr[2])
            elif k == 'downcast':
                if isinstance(v, Coroutine):
                    c = Cell(Struct('(coroutine-variant)', v.variants.setdefault(pr[1], [])))
                elif isinstance(v, Enum):
                    want = pr[1]
                    if not want.startswith('variant#') and v.vname != want:
                        raise Unsupported('downcast %s on %r in %s' % (want, v, f.name))
                elif v is None and create:
                    pass
                else:
                    raise Unsupported('downcast on %r in %s' % (v, f.name))
            elif k == 'index':
                iv = L[pr[1]].v
                i = self.concretize_int(iv, 'index')
                elems = self.elems_of(v)
                if i >= len(elems):
                    raise Panic('index out of bounds', f.name)
                c = elems[i]
            elif k == 'constindex':
                elems = self.elems_of(v)
                i = pr[1]
                if pr[3]:
                    i = len(elems) - i
                c = elems[i]
            else:
                raise Unsupported('projection %r' % (pr,))
        return c

    def special_field(self, f, c, v, idx, ty):
        # Box<T> / Unique<T> / NonNull<T> internals: the box stands for its content
        if 'Unique<' in ty or 'NonNull<' in ty or ty.strip().startswith(('*const', '*mut')):
            return c
        raise Unsupported('field %d of %r (%s) in %s' % (idx, v, ty, f.name))

    def elems_of(self, v):
        if isinstance(v, (VecV, SliceV)):
            return v.elems
        if isinstance(v, Struct):
            return v.fields
        if isinstance(v, S) and v.lit is not None:
            return [Cell(Int(8, False, x)) for x in v.lit]
        raise Unsupported('indexing %r' % (v,))

    def operand(self, f, L, op):
        k = op[0]
        if k == 'copy':
            c = self.place_cell(f, L, op[1])
            if c.v is None:
                raise Unsupported('read of uninitialised %r in %s' % (op[1], f.name))
            return clone_val(c.v)
        if k == 'move':
            c = self.place_cell(f, L, op[1])
            if c.v is None:
                raise Unsupported('read of uninitialised %r in %s' % (op[1], f.name))
            return c.v
        if k == 'const':
            return self.const(f, op[1])
        if k == 'fnitem':
            return FnItem(op[1])
        raise Unsupported('operand %r' % (op,))

    _int_const = re.compile(r'^(-?\d+)_(i8|i16|i32|i64|i128|isize|u8|u16|u32|u64|u128|usize)$')

    def const(self, f, text):
        if text == 'true':
            return True
        if text == 'false':
            return False
        if text == '()':
            return UNIT
        m = self._int_const.match(text)
        if m:
            return mk_int(m.group(2), int(m.group(1)))
        if text.startswith('"'):
            return S(lit=_unescape(text[1:-1]), text=True)
        if text.startswith('b"'):
            return S(lit=_unescape(text[2:-1]))
        if text.startswith("'"):
            return mk_int('char', ord(_unescape(text[1:-1]).decode()))
        m = re.match(r'^(i8|i16|i32|i64|i128|isize|u8|u16|u32|u64|u128|usize)::(MAX|MIN)$', text)
        if m:
            b, s = INT_TYPES[m.group(1)]
            if m.group(2) == 'MAX':
                return Int(b, s, (1 << (b - 1)) - 1 if s else (1 << b) - 1)
            return Int(b, s, -(1 << (b - 1)) if s else 0)
        m = re.match(r'^\{(alloc\d+): &(.*)\}$', text)
        if m:
            if m.group(2).strip() in ('&str', "&'static str"):
                lit = self.mod.static_literal(m.group(1), f.name if f is not None else '')
                if lit is not None:
                    return Ref(Cell(Ref(Cell(S(lit=_unescape(lit[1:-1]), text=True)))))
            return Ref(Cell(Opaque('static', m.group(2))))
        if text.startswith('ZeroSized: '):
            t = text[11:].strip()
            if t.startswith('{'):
                return Struct(t, [])
            return FnItem(t)
        if 'promoted[' in text:
            idx = text[text.rindex('promoted['):]
            owner = f.name
            if '::promoted[' in owner:
                owner = owner[:owner.rindex('::promoted[')]
            pf = self.mod.funcs.get(owner + '::' + idx)
            if pf is None:
                raise Unsupported('promoted %s of %s' % (idx, f.name))
            return self.exec_fn(self.mod.parse_body(pf), [])
        name = text.rsplit('::', 1)[-1]
        sc = self.index.simple_consts.get(name)
        if sc:
            if len(sc) > 1:
                raise Unsupported('ambiguous constant ' + text)
            ty, val = next(iter(sc))
            return self.const(f, val)
        # const item with a body
        hits = [g for n, g in self.mod.funcs.items() if g.kind != 'fn' and (n == text or n.endswith('::' + name))]
        if len(hits) == 1:
            return self.exec_fn(self.mod.parse_body(hits[0]), [])
        m = re.match(r'^(-?[\d.]+(e-?\d+)?)f(32|64)$', text)
        if m:
            return Opaque('float', float(m.group(1)))
        # unit-like enum/struct constants or fn items
        if re.match(r'^[\w:<>, &\[\];\']+$', text) or text.startswith('<'):
            return FnItem(text)
        raise Unsupported('const %r in %s' % (text, f.name))

    # ------------------------------------------------------------------ rvalues
    def rvalue(self, f, L, rv):
        k = rv[0]
        if k == 'use':
            return self.operand(f, L, rv[1])
        if k == 'ref':
            pl = rv[2]
            c = self.place_cell(f, L, pl, create=True)
            # &(*x) where x is a str/[u8] value: stay a value
            if pl.projs and pl.projs[-1][0] == 'deref':
                base = self.place_cell(f, L, Place(pl.local, pl.projs[:-1]))
                if not isinstance(base.v, Ref):
                    return base.v
            return Ref(c, rv[1] in ('mut', 'rawmut'))
        if k == 'bin':
            return self.binop(f, rv[1], self.operand(f, L, rv[2]), self.operand(f, L, rv[3]))
        if k == 'un':
            a = self.operand(f, L, rv[2])
            if rv[1] == 'Not':
                if is_bool(a):
                    return b_not(a)
                if a.concrete:
                    return Int(a.bits, a.signed, ~a.v)
                return Int(a.bits, a.signed, ~a.v)
            if rv[1] == 'Neg':
                if a.concrete:
                    return Int(a.bits, a.signed, -a.v)
                return Int(a.bits, a.signed, -a.v)
            if rv[1] == 'PtrMetadata':
                return self.len_of(a)
            raise Unsupported('unop ' + rv[1])
        if k == 'cast':
            return self.cast(f, self.operand(f, L, rv[1]), rv[2], rv[3])
        if k == 'disc':
            v = self.place_cell(f, L, rv[1]).v
            if isinstance(v, Enum):
                return Int(64, True, v.variant)
            if isinstance(v, Coroutine):
                return Int(32, False, v.state)
            raise Unsupported('discriminant of %r in %s' % (v, f.name))
        if k == 'len':
            return self.len_of(self.place_cell(f, L, rv[1]).v)
        if k == 'agg':
            return self.aggregate(f, L, rv)
        if k == 'repeat':
            v = self.operand(f, L, rv[1])
            n = rv[2]
            m = re.match(r'^(\d+)_usize$', n) or re.match(r'^const (\d+)_usize$', n)
            if not m:
                c = self.const(f, n.replace('const ', ''))
                cnt = c.v
            else:
                cnt = int(m.group(1))
            if isinstance(v, Int) and v.bits == 8 and v.concrete:
                return S(lit=bytes([v.v & 0xff]) * cnt)
            return Struct('(array)', [Cell(clone_val(v)) for _ in range(cnt)])
        raise Unsupported('rvalue %r' % (rv,))

    def len_of(self, v):
        if isinstance(v, Ref):
            v = v.cell.v
        if isinstance(v, (VecV, SliceV)):
            return Int(64, False, len(v.elems))
        if isinstance(v, Struct):
            return Int(64, False, len(v.fields))
        if isinstance(v, S):
            n = s_len(v)
            if isinstance(n, int):
                return Int(64, False, n)
            if z3.is_bv(n):
                # length of an abstract (atom) string: an uninterpreted 64-bit value below 2^32
                self.add(z3.ULE(n, z3.BitVecVal(1 << 32, 64)))
                return Int(64, False, n)
            return Int(64, False, z3.Int2BV(n, 64))
        raise Unsupported('len of %r' % (v,))

    def binop(self, f, op, a, b):
        if is_bool(a) and is_bool(b):
            if op == 'Eq':
                return (a == b) if isinstance(a, bool) and isinstance(b, bool) else (b_z(a) == b_z(b))
            if op == 'Ne':
                return (a != b) if isinstance(a, bool) and isinstance(b, bool) else (b_z(a) != b_z(b))
            if op == 'BitAnd':
                return b_and(a, b)
            if op == 'BitOr':
                return b_or(a, b)
            if op == 'BitXor':
                return (a != b) if isinstance(a, bool) and isinstance(b, bool) else z3.Xor(b_z(a), b_z(b))
            raise Unsupported('bool binop ' + op)
        if not isinstance(a, Int) or not isinstance(b, Int):
            raise Unsupported('binop %s on %r, %r in %s' % (op, a, b, f.name))
        bits, signed = a.bits, a.signed
        conc = a.concrete and b.concrete
        if op in ('Eq', 'Ne', 'Lt', 'Le', 'Gt', 'Ge'):
            if conc:
                return {'Eq': a.v == b.v, 'Ne': a.v != b.v, 'Lt': a.v < b.v, 'Le': a.v <= b.v, 'Gt': a.v > b.v, 'Ge': a.v >= b.v}[op]
            x, y = a.z(), b.z()
            if op == 'Eq':
                return x == y
            if op == 'Ne':
                return x != y
            if signed:
                return {'Lt': x < y, 'Le': x <= y, 'Gt': x > y, 'Ge': x >= y}[op]
            return {'Lt': z3.ULT(x, y), 'Le': z3.ULE(x, y), 'Gt': z3.UGT(x, y), 'Ge': z3.UGE(x, y)}[op]
        if op == 'Cmp':
            lt = self.binop(f, 'Lt', a, b)
            if self.branch(lt):
                return Enum('Ordering', -1, 'Less', [])
            if self.branch(self.binop(f, 'Eq', a, b)):
                return Enum('Ordering', 0, 'Equal', [])
            return Enum('Ordering', 1, 'Greater', [])
        if op.endswith('WithOverflow'):
            base = op[:-12]
            lo, hi = (-(1 << (bits - 1)), (1 << (bits - 1)) - 1) if signed else (0, (1 << bits) - 1)
            if conc:
                r = {'Add': a.v + b.v, 'Sub': a.v - b.v, 'Mul': a.v * b.v}[base]
                return tup(Int(bits, signed, r), not (lo <= r <= hi))
            x, y = a.z(), b.z()
            if base == 'Add':
                r = x + y
                ov = z3.Not(z3.And(z3.BVAddNoOverflow(x, y, signed), z3.BVAddNoUnderflow(x, y))) if signed else z3.Not(z3.BVAddNoOverflow(x, y, False))
            elif base == 'Sub':
                r = x - y
                ov = z3.Not(z3.And(z3.BVSubNoOverflow(x, y), z3.BVSubNoUnderflow(x, y, signed)))
            else:
                r = x * y
                ov = z3.Not(z3.And(z3.BVMulNoOverflow(x, y, signed), z3.BVMulNoUnderflow(x, y))) if signed else z3.Not(z3.BVMulNoOverflow(x, y, False))
            return tup(Int(bits, signed, r), ov)
        if op.endswith('Unchecked'):
            op = op[:-9]
        if conc:
            x, y = a.v, b.v
            if op == 'Add':
                r = x + y
            elif op == 'Sub':
                r = x - y
            elif op == 'Mul':
                r = x * y
            elif op == 'Div':
                if y == 0:
                    raise Panic('division by zero', f.name)
                r = abs(x) // abs(y) * (1 if (x < 0) == (y < 0) else -1)
            elif op == 'Rem':
                if y == 0:
                    raise Panic('remainder by zero', f.name)
                r = abs(x) % abs(y) * (1 if x >= 0 else -1)
            elif op == 'BitAnd':
                r = x & y
            elif op == 'BitOr':
                r = x | y
            elif op == 'BitXor':
                r = x ^ y
            elif op == 'Shl':
                r = x << (y % bits)
            elif op == 'Shr':
                r = x >> (y % bits)
            else:
                raise Unsupported('binop ' + op)
            return Int(bits, signed, r)
        x, y = a.z(), b.z()
        if y.size() != x.size():
            y = z3.ZeroExt(x.size() - y.size(), y) if y.size() < x.size() else z3.Extract(x.size() - 1, 0, y)
        if op == 'Add':
            r = x + y
        elif op == 'Sub':
            r = x - y
        elif op == 'Mul':
            r = x * y
        elif op == 'Div':
            r = (x / y) if signed else z3.UDiv(x, y)
        elif op == 'Rem':
            r = z3.SRem(x, y) if signed else z3.URem(x, y)
        elif op == 'BitAnd':
            r = x & y
        elif op == 'BitOr':
            r = x | y
        elif op == 'BitXor':
            r = x ^ y
        elif op == 'Shl':
            r = x << y
        elif op == 'Shr':
            r = (x >> y) if signed else z3.LShR(x, y)
        else:
            raise Unsupported('binop ' + op)
        return Int(bits, signed, r)

    def cast(self, f, v, ty, kind):
        ty = ty.strip()
        if kind == 'IntToInt':
            if is_bool(v):
                b, s = INT_TYPES[ty]
                if isinstance(v, bool):
                    return Int(b, s, int(v))
                return Int(b, s, z3.If(v, z3.BitVecVal(1, b), z3.BitVecVal(0, b)))
            b, s = INT_TYPES[ty]
            if v.concrete:
                return Int(b, s, v.v)
            x = v.v
            if b < v.bits:
                x = z3.Extract(b - 1, 0, x)
            elif b > v.bits:
                x = z3.SignExt(b - v.bits, x) if v.signed else z3.ZeroExt(b - v.bits, x)
            return Int(b, s, x)
        if kind.startswith('PointerCoercion(Unsize'):
            t = re.sub(r"^&('\w+ )?(mut )?", '', ty)
            if isinstance(v, Ref):
                tv = v.cell.v
                if t.startswith('[') or t == 'str':
                    if isinstance(tv, S):
                        return tv
                    if isinstance(tv, (VecV, SliceV)):
                        return SliceV(tv.elems)
                    if isinstance(tv, Struct):
                        return SliceV(tv.fields)
            return v
        if kind.startswith('PointerCoercion') or kind in ('PtrToPtr', 'Transmute', 'PointerExposeProvenance'):
            return v
        raise Unsupported('cast %s to %s in %s' % (kind, ty, f.name))

    def enum_variants(self, name, variant=None):
        ev = self.src.enum_variants_for(name, variant) if variant is not None else self.src.enum_variants(name)
        if ev is not None:
            return ev
        return STD_ENUMS.get(last_seg(name))

    def aggregate(self, f, L, rv):
        kind, path, items = rv[1], rv[2], rv[3]
        if kind == 'tuple':
            if not items:
                return UNIT
            return Struct('(tuple)', [Cell(self.operand(f, L, o)) for o in items])
        if kind == 'array':
            vals = [self.operand(f, L, o) for o in items]
            if vals and all(isinstance(v, Int) and v.bits == 8 and not v.signed and v.concrete for v in vals):
                return S(lit=bytes(v.v for v in vals))
            return Struct('(array)', [Cell(v) for v in vals])
        p = strip_generics(path)
        segs = p.split('::')
        name = segs[-1]
        if path.startswith('{'):
            # closure / coroutine
            vals = [Cell(self.operand(f, L, o)) for _, o in items] if kind == 'struct' else []
            if path.startswith('{coroutine@'):
                # the body of an `async fn` F is F::{closure#0}
                body = self.mod.funcs.get(f.name + '::{closure#0}')
                if body is None:
                    raise Unsupported('coroutine body of %s not found' % f.name)
                return Coroutine(path, vals, body)
            return Struct(path, vals)
        if kind == 'struct':
            fields = self.src.struct_fields(p)
            if fields is not None and len(segs) < 2 or (fields is not None and self.enum_variants('::'.join(segs[:-1])) is None):
                vals = {n: self.operand(f, L, o) for n, o in items}
                if set(vals) != set(fields):
                    raise Unsupported('struct fields mismatch for %s: %s vs %s' % (path, sorted(vals), fields))
                return Struct(name, [Cell(vals[n]) for n in fields])
            ev = self.enum_variants('::'.join(segs[:-1])) if len(segs) >= 2 else None
            if ev is not None:
                for vn, disc, fl in ev:
                    if vn == name:
                        vals = {n: self.operand(f, L, o) for n, o in items}
                        return Enum(segs[-2], disc, vn, [Cell(vals[n]) for n in fl])
            if name in STD_STRUCTS:
                vals = {n: self.operand(f, L, o) for n, o in items}
                return Struct(name, [Cell(vals[n]) for n in STD_STRUCTS[name]])
            raise Unsupported('unknown struct aggregate %s in %s' % (path, f.name))
        if kind in ('tuplestruct', 'unit'):
            vals = [self.operand(f, L, o) for o in items]
            if len(segs) >= 2:
                ev = self.enum_variants('::'.join(segs[:-1]), name)
                if ev is not None:
                    for vn, disc, fl in ev:
                        if vn == name:
                            return Enum(segs[-2], disc, vn, [Cell(v) for v in vals])
            fields = self.src.struct_fields(p)
            if fields is not None:
                return Struct(name, [Cell(v) for v in vals])
            if kind == 'unit' and len(segs) >= 2 and not p.startswith(('database', 'synchronisation', 'security', 'network')):
                return Enum(segs[-2], -1, name, [])
            raise Unsupported('unknown aggregate %s in %s' % (path, f.name))
        raise Unsupported('aggregate %r' % (rv,))

    def set_discriminant(self, f, L, pl, n):
        c = self.place_cell(f, L, pl, create=True)
        v = c.v
        ty = f.locals.get(pl.local) if not pl.projs else None
        if isinstance(v, Coroutine):
            v.state = n
            return
        if isinstance(v, Enum):
            ev = self.enum_variants(v.name)
            for vn, disc, fl in ev or []:
                if disc == n:
                    v.variant, v.vname = disc, vn
                    return
        raise Unsupported('set discriminant on %r in %s' % (v, f.name))

    def switch(self, f, L, t):
        v = self.operand(f, L, t[1])
        cases, otherwise = t[2], t[3]
        if is_bool(v):
            if isinstance(v, bool):
                iv = int(v)
                for val, bb in cases:
                    if val == iv:
                        return bb
                return otherwise
            for val, bb in cases:
                cond = v if val else z3.Not(v)
                if self.branch(cond):
                    return bb
            if otherwise is None:
                raise PathEnd()
            return otherwise
        if isinstance(v, Int):
            if v.concrete:
                for val, bb in cases:
                    cv = Int(v.bits, v.signed, val).v
                    if cv == v.v:
                        return bb
                return otherwise
            for val, bb in cases:
                if self.branch(v.v == z3.BitVecVal(val, v.bits)):
                    return bb
            if otherwise is None:
                raise PathEnd()
            return otherwise
        raise Unsupported('switchInt on %r in %s' % (v, f.name))

    # ------------------------------------------------------------------ calls
    def dispatch(self, f, ci, callee, argv, dest_ty):
        if ci is None:
            # call through an operand (closure / fn pointer value)
            fv = self.operand_value_callee(f, callee)
            return self.call_value(fv, argv)
        # 1. explicit stubs (environment)
        stub = self.stubs.get(ci.norm)
        if stub is not None:
            self.used_models.add('stub:' + ci.norm)
            return stub(self, argv, ci, dest_ty)
        # 2. crate function with a MIR body
        g = self.index.resolve(ci, argv)
        if g is not None:
            sk = self.stubs.get('fn:' + g.name.rsplit('>::', 1)[-1]) or self.stubs.get('fn:' + g.name)
            if sk is not None:
                self.used_models.add('stub:' + g.name)
                return sk(self, argv, ci, dest_ty)
            return self.call(self.mod.parse_body(g), argv)
        # 3. std model
        m = self.models.get(ci.norm)
        if m is None and ci.trait is not None:
            m = self.models.get('<_ as %s>::%s' % (last_seg(ci.trait), ci.method))
        if m is not None:
            self.used_models.add(ci.norm)
            return m(self, argv, ci, dest_ty)
        # 4. trait method on a generic parameter: dispatch on the runtime value
        if ci.trait is not None and argv:
            a0 = argv[0]
            while isinstance(a0, Ref):
                a0 = a0.cell.v
            if isinstance(a0, (Struct, Enum)):
                g = self.index.resolve_dyn(a0.name, last_seg(ci.trait), ci.method)
                if g is not None:
                    return self.call(self.mod.parse_body(g), argv)
        raise Unsupported('no model for callee %s  [norm: %s] (from %s)' % (ci.raw, ci.norm, f.name))

    def call_value(self, fv, argv):
        """call a closure value / fn item with already evaluated args (args as a list)"""
        if isinstance(fv, Ref):
            fv = fv.cell.v
        if isinstance(fv, Struct) and fv.name.startswith('{'):
            g = self.index.closures.get(fv.name)
            if g is None:
                raise Unsupported('closure body not found: ' + fv.name)
            g = self.mod.parse_body(g)
            # closure fn takes (&self|self, args...) ; callers pass the args tuple spread
            self_t = g.args[0][1].strip()
            selfv = Ref(Cell(fv), True) if self_t.startswith('&') else fv
            return self.exec_fn(g, [selfv] + list(argv))
        if isinstance(fv, FnItem):
            ci = parse_callee(fv.path)
            return self.dispatch(None, ci, ('path', fv.path), list(argv), None)
        raise Unsupported('call of value %r' % (fv,))

    def poll(self, co):
        """poll a coroutine value once: returns the Poll enum of its body"""
        if not isinstance(co, Coroutine):
            raise Unsupported('poll of %r' % (co,))
        body = self.mod.parse_body(co.body)
        pin = Struct('Pin', [Cell(Ref(Cell(co), True))])
        return self.exec_fn(body, [pin, Ref(Cell(Opaque('task-context')), True)])

    def operand_value_callee(self, f, callee):
        raise Unsupported('indirect call %r in %s' % (callee, f.name))


def _unescape(s):
    out = bytearray()
    i = 0
    n = len(s)
    while i < n:
        c = s[i]
        if c == '\\':
            d = s[i + 1]
            if d == 'n':
                out.append(10)
            elif d == 't':
                out.append(9)
            elif d == 'r':
                out.append(13)
            elif d == '0':
                out.append(0)
            elif d == '\\':
                out.append(92)
            elif d == '"':
                out.append(34)
            elif d == "'":
                out.append(39)
            elif d == 'x':
                out.append(int(s[i + 2:i + 4], 16))
                i += 4
                continue
            elif d == 'u':
                j = s.index('}', i)
                out.extend(chr(int(s[i + 3:j], 16)).encode())
                i = j + 1
                continue
            else:
                raise Unsupported('escape \\' + d)
            i += 2
            continue
        out.extend(c.encode())
        i += 1
    return bytes(out)


def load(mir_path, repo='/repo', timeout_ms=60000):
    mod = MirModule(mir_path)
    src = SrcInfo(repo)
    return Ctx(mod, src, timeout_ms)
