#!/bin/bash
# Build the caches the checks use (they rebuild whatever is missing, only slower).
set -e
export CARGO_NET_OFFLINE=true
VCACHE=${VCACHE:-/var/cache/discret-verif}
mkdir -p "$VCACHE/mir"
cd /verif
python3-vt mirsym/mirgen.py /repo
python3-vt -c "import sys; sys.path.insert(0,'/verif'); from drivers import replay; print(replay.native_binary())"
# Kani build cache (first build of the crate under Kani ~4 min)
(cd /repo && CARGO_NET_OFFLINE=true timeout 1500 cargo kani --target-dir "$VCACHE/target-kani" -Z stubbing --harness c14_uid_from_no_panic --output-format terse > "$VCACHE/kani-setup.log" 2>&1 || true)
